package main

import (
	"encoding/json"
	"fmt"
	"math"
	"math/big"
	"strings"

	clip "github.com/bolom009/go-clipper2"
)

// C15: TrimCollinear64 removes exactly the redundant vertices.
type trimCase struct {
	Path clip.Path64 `json:"path"`
	Open bool        `json:"open"`
}

// triSign mis-signs a coordinate difference of exactly +1 (C14 finding): a trim result that is
// wrong on a path containing such a difference between any two of its points is attributed to it
func hasPlusOne(p clip.Path64) bool {
	for i := range p {
		for j := range p {
			if p[j].X-p[i].X == 1 || p[j].Y-p[i].Y == 1 {
				return true
			}
		}
	}
	return false
}

func c15Check(o *Oracle, c trimCase) (ok bool, kind, sig, detail string) {
	var out clip.Path64
	if f := safeCall(func() { out = clip.TrimCollinear64(c.Path, c.Open) }); f != "" {
		return true, "", "", ""
	}
	resp := o.Ask(fmt.Sprintf("props trim %d %s %s", b2i(c.Open), pathStr(c.Path), pathStr(out)))
	mk := func(kind, d string) (bool, string, string, string) {
		sig := sigOf(c)
		if hasPlusOne(c.Path) {
			sig = "site:triSign-plus-one"
		} else if kind == "three-collinear" || kind == "idempotence" {
			sig = "site:trim-single-pass"
		}
		return false, kind, sig, fmt.Sprintf("TrimCollinear64(%v, open=%v) = %v: %s", c.Path, c.Open, out, d)
	}
	if strings.HasPrefix(resp, "bad") {
		k := strings.Fields(resp)[1]
		if k == "three-collinear" {
		}
		return mk(k, resp)
	}
	if !strings.HasPrefix(resp, "ok") {
		fatal("oracle: %s", resp)
	}
	if !c.Open && len(out) >= 3 {
		// winding number of every off-boundary point unchanged
		if k, r := askRegion(o, regionLine("eqw", nil, 0, []int{0}, []clip.Paths64{{c.Path}, {out}})); !k {
			return mk("winding", r)
		}
	}
	// trimming a trimmed path changes nothing
	again := clip.TrimCollinear64(out, c.Open)
	if !pathsEqual(clip.Paths64{again}, clip.Paths64{out}) {
		return mk("idempotence", fmt.Sprintf("a second trim gives %v", again))
	}
	return true, "", "", ""
}

func genTrimPath(r *Rng) clip.Path64 {
	n := r.Range(0, 9)
	k := r.Range(2, 5)
	var mul, off int64 = 1, 0
	switch r.Pick(6, 8, 4, 2, 1, 1) {
	case 1:
		mul = 2 // no coordinate difference of exactly 1
	case 2:
		mul, off = 1<<20, -(1 << 28)
	case 3:
		mul, off = 1, (1<<29)-6
	case 4:
		// coordinate differences on both sides of 2^32 (the 128-bit product comparison of isCollinear
		// splits its operands there): grid spacing 2^30, up to 9 wide
		mul, k = 1<<30, r.Range(4, 9)
	case 5:
		mul, k = 1000000007, r.Range(4, 14)
	}
	p := make(clip.Path64, 0, n+2)
	for len(p) < n {
		q := P{X: int64(r.Intn(k))*mul + off, Y: int64(r.Intn(k))*mul + off}
		p = append(p, q)
		if r.Chance(0.15) && len(p) >= 2 { // extend a collinear run
			a, b := p[len(p)-2], p[len(p)-1]
			p = append(p, P{X: 2*b.X - a.X, Y: 2*b.Y - a.Y})
		}
	}
	return p
}

func init() {
	stages["c15-search"] = func(ctx *Ctx, cnt func(q, t int) int, replay string) Result {
		col := NewCollector("C15", "search", "closed and open paths of 0-11 vertices on 2-5 wide grids (duplicates, spikes, collinear runs spanning index 0) at unit spacing, spacing 2 (no coordinate difference of exactly 1), 2^20, next to 2^29, and 4-14 wide grids of spacing 2^30 / 10^9+7 (coordinate differences on both sides of 2^32); the Lean oracle judges cyclic-subsequence, exact area, no three collinear, < 3 ⇒ empty, end points of open paths, winding of every off-boundary point (region oracle, r = 0), and the harness checks idempotence; non-trivial = at least one vertex removed and a non-empty result")
		parallelFor(ctx, cnt(30000, 2000000), true, col, func(o *Oracle, i int) {
			r := NewRng(ctx.Seed, "c15", i)
			c := trimCase{Path: genTrimPath(r), Open: r.Chance(0.25)}
			ok, kind, sig, detail := c15Check(o, c)
			out := clip.TrimCollinear64(c.Path, c.Open)
			col.Eval(fmt.Sprint(c), len(out) > 0 && len(out) < len(c.Path), fmt.Sprintf("open=%v", c.Open), fmt.Sprintf("removed=%d", min(len(c.Path)-len(out), 6)))
			col.Sample(c)
			if !ok && !col.KindFull(kind+"|"+sig[:4]) {
				// shrink by deleting vertices
				for changed := true; changed; {
					changed = false
					for k := 0; k < len(c.Path); k++ {
						cc := trimCase{Path: append(append(clip.Path64{}, c.Path[:k]...), c.Path[k+1:]...), Open: c.Open}
						if k2, kd, sg, _ := c15Check(o, cc); !k2 && kd == kind && sg[:9] == sig[:9] {
							c = cc
							changed = true
							k--
						}
					}
				}
				_, _, sig, detail = c15Check(o, c)
				col.Violate(Violation{Property: "C15", Kind: kind + "|" + sig[:4], Signature: sig, Detail: detail, Case: c, Stream: "c15", Index: i, Seed: ctx.Seed})
			}
		})
		return col.Finish()
	}
	replays["c15-search"] = func(ctx *Ctx, o *Oracle, raw json.RawMessage) *Violation {
		var c trimCase
		if err := json.Unmarshal(raw, &c); err != nil {
			fatal("replay case: %v", err)
		}
		if ok, kind, sig, detail := c15Check(o, c); !ok {
			return &Violation{Property: "C15", Kind: kind, Signature: sig, Detail: detail, Case: c}
		}
		return nil
	}
}

// C16: SimplifyPath removes only near-collinear vertices and stops when none is left.
type simpCase struct {
	Path   clip.Path64 `json:"path"`
	Eps    float64     `json:"epsilon"`
	Closed bool        `json:"closed"`
	D      bool        `json:"float_variant"`
	Shift  [2]int64    `json:"extra_shift,omitempty"` // one more translation to compare with (0,0 = none)
}

func ratOfFloat(f float64) (num, den string) {
	if math.IsInf(f, 1) {
		// epsilon squared overflowed: every finite distance is below it
		f = math.MaxFloat64
	}
	r := new(big.Rat).SetFloat64(f)
	return r.Num().String(), r.Denom().String()
}

func runSimp(c simpCase, path clip.Path64, eps float64) clip.Path64 {
	if c.D {
		out := clip.SimplifyPathD(clip.Path64ToPathD(path), eps, c.Closed)
		return clip.PathDToPath64(out)
	}
	return clip.SimplifyPath64(path, eps, c.Closed)
}

func c16Check(o *Oracle, c simpCase) (ok bool, kind, detail string) {
	var out clip.Path64
	if f := safeCall(func() { out = runSimp(c, c.Path, c.Eps) }); f != "" {
		return true, "", ""
	}
	n, d := ratOfFloat(c.Eps * c.Eps)
	resp := o.Ask(fmt.Sprintf("props simplify %d %s %s %s %s", b2i(c.Closed), n, d, pathStr(c.Path), pathStr(out)))
	if strings.HasPrefix(resp, "bad") {
		return false, strings.Fields(resp)[1], fmt.Sprintf("SimplifyPath(%v, eps=%v, closed=%v, D=%v) = %v: %s", c.Path, c.Eps, c.Closed, c.D, out, resp)
	}
	if !strings.HasPrefix(resp, "ok") {
		fatal("oracle: %s", resp)
	}
	// Paths variants, path by path
	if !c.D {
		ps := clip.SimplifyPaths64(clip.Paths64{c.Path, c.Path}, c.Eps, c.Closed)
		if len(ps) != 2 || !pathsEqual(clip.Paths64{ps[0]}, clip.Paths64{out}) || !pathsEqual(clip.Paths64{ps[1]}, clip.Paths64{out}) {
			return false, "paths-variant", fmt.Sprintf("SimplifyPaths64 differs from SimplifyPath64 path by path: %v vs %v", ps, out)
		}
	}
	// the retained indices do not change under translation, or scaling of path and epsilon by a power of two
	type tf struct {
		k      int64
		dx, dy int64
	}
	tfs := []tf{{1, 1000, -777}, {1, (1 << 29) - 200, -(1 << 29) + 300}, {1 << 10, 0, 0}, {1 << 20, 0, 0}, {1 << 22, 0, 0}, {1 << 21, 1 << 27, -(1 << 27)}}
	if c.Shift != [2]int64{} {
		tfs = append(tfs, tf{1, c.Shift[0], c.Shift[1]})
	}
	for _, t := range tfs {
		mx := maxAbs(clip.Paths64{c.Path})
		if mx*float64(t.k)+math.Abs(float64(t.dx)) > (1<<29) || mx*float64(t.k)+math.Abs(float64(t.dy)) > (1<<29) {
			if t.k != 1 || t.dx != c.Shift[0] || t.dy != c.Shift[1] || !within29(c.Path, t.dx, t.dy) {
				continue
			}
		}
		g := func(p P) P { return P{X: p.X*t.k + t.dx, Y: p.Y*t.k + t.dy} }
		gp := mapPts(clip.Paths64{c.Path}, g)[0]
		out2 := runSimp(c, gp, c.Eps*float64(t.k))
		if !pathsEqual(mapPts(clip.Paths64{out}, g), clip.Paths64{out2}) {
			return false, "magnitude", fmt.Sprintf("retained vertices change under ×%d +(%d,%d): %v vs %v (path %v eps %v closed %v)", t.k, t.dx, t.dy, out, out2, c.Path, c.Eps, c.Closed)
		}
	}
	return true, "", ""
}

func within29(p clip.Path64, dx, dy int64) bool {
	for _, q := range p {
		if x, y := q.X+dx, q.Y+dy; x > 1<<29 || x < -(1<<29) || y > 1<<29 || y < -(1<<29) {
			return false
		}
	}
	return true
}

// long oblique edges anywhere within 2^29, with exactly collinear vertices (mid points and
// continuations): the squared-distance arithmetic works on products beyond 2^53 here
func genBigSimpPath(r *Rng) (clip.Path64, [2]int64) {
	m := []int64{1 << 20, 1 << 26, 1 << 27, 1 << 28, 1 << 29}[r.Intn(5)]
	rp := func() P { return P{X: int64(r.Range(int(-m), int(m))), Y: int64(r.Range(int(-m), int(m)))} }
	in := func(q P) bool { return q.X <= 1<<29 && q.X >= -(1<<29) && q.Y <= 1<<29 && q.Y >= -(1<<29) }
	n := r.Range(4, 9)
	p := clip.Path64{rp()}
	for len(p) < n {
		a := p[len(p)-1]
		switch r.Pick(3, 3, 1) {
		case 0:
			p = append(p, rp())
		case 1: // an exact mid point followed by the end of the edge
			b := rp()
			d := P{X: (b.X - a.X) / 2, Y: (b.Y - a.Y) / 2}
			p = append(p, P{X: a.X + d.X, Y: a.Y + d.Y}, P{X: a.X + 2*d.X, Y: a.Y + 2*d.Y})
		default: // near-collinear: one unit off the mid point
			b := rp()
			p = append(p, P{X: (a.X+b.X)/2 + int64(r.Range(-1, 1)), Y: (a.Y+b.Y)/2 + int64(r.Range(-1, 1))}, b)
		}
	}
	for i := range p {
		if !in(p[i]) {
			p[i] = rp()
		}
	}
	// a translation that keeps the path within 2^29
	lo, hi := P{X: p[0].X, Y: p[0].Y}, P{X: p[0].X, Y: p[0].Y}
	for _, q := range p {
		lo.X, lo.Y, hi.X, hi.Y = min(lo.X, q.X), min(lo.Y, q.Y), max(hi.X, q.X), max(hi.Y, q.Y)
	}
	sh := func(l, h int64) int64 {
		a, b := -(1<<29)-l, (1<<29)-h // admissible shifts
		if b <= a {
			return 0
		}
		return a + int64(r.Intn(int(b-a)))
	}
	return p, [2]int64{sh(lo.X, hi.X), sh(lo.Y, hi.Y)}
}

func init() {
	stages["c16-search"] = func(ctx *Ctx, cnt func(q, t int) int, replay string) Result {
		col := NewCollector("C16", "search", "paths of 0-10 vertices (zig-zags, near-collinear runs, duplicates) × ε ∈ {0, ½, 1, 1.5, 2, 3, 10} × closed/open × {SimplifyPath64, SimplifyPathD}; the Lean oracle judges subsequence, end points, the exact-rational post-condition (no retained vertex with dist² < ε²(1−10⁻⁹)), area at ε = 0; a quarter of the cases are 4-10 vertex paths with long oblique edges, exact mid points and one-unit-off mid points anywhere within 2^29 (ε ∈ {0, ½, 1, 1000, 10⁶}); at ε = 0 a retained exactly collinear vertex is a violation; the harness compares the Paths variants and the retained vertices under translation (fixed ones up to 2^29 plus one random translation per big case that keeps it within 2^29) and ×2^10, ×2^20, ×2^22, ×2^21+2^27 scaling of path and ε; non-trivial = at least one vertex removed")
		parallelFor(ctx, cnt(20000, 1500000), true, col, func(o *Oracle, i int) {
			r := NewRng(ctx.Seed, "c16", i)
			n := r.Range(0, 10)
			p := clip.Path64{}
			x, y := int64(0), int64(0)
			for len(p) < n {
				switch r.Pick(3, 2, 1) {
				case 0:
					x += int64(r.Range(1, 12))
					y = int64(r.Range(-4, 4))
				case 1:
					x, y = int64(r.Range(-20, 20)), int64(r.Range(-20, 20))
				default: // repeat or exact collinear continuation
					if len(p) >= 2 {
						a, b := p[len(p)-2], p[len(p)-1]
						x, y = 2*b.X-a.X, 2*b.Y-a.Y
					}
				}
				p = append(p, P{X: x, Y: y})
			}
			if r.Chance(0.25) {
				bp, sh := genBigSimpPath(r)
				c := simpCase{Path: bp, Eps: []float64{0, 0, 0.5, 1, 1000, 1e6}[r.Intn(6)], Closed: r.Bool(), D: r.Bool(), Shift: sh}
				ok, kind, detail := c16Check(o, c)
				out := runSimp(c, c.Path, c.Eps)
				col.Eval(fmt.Sprint(c), len(out) < len(c.Path), "big-oblique", fmt.Sprintf("closed=%v", c.Closed), fmt.Sprintf("D=%v", c.D))
				if !ok && !col.KindFull(kind) {
					col.Violate(Violation{Property: "C16", Kind: kind, Signature: sigOf(c), Detail: detail, Case: c, Stream: "c16", Index: i, Seed: ctx.Seed})
				}
				return
			}
			c := simpCase{Path: p, Eps: []float64{0, 0.5, 1, 1.5, 2, 3, 10, 10, 1e9, 1.4e154, 1e300}[r.Intn(11)], Closed: r.Bool(), D: r.Chance(0.3)}
			ok, kind, detail := c16Check(o, c)
			out := runSimp(c, c.Path, c.Eps)
			col.Eval(fmt.Sprint(c), len(out) < len(c.Path), fmt.Sprintf("eps=%v", c.Eps), fmt.Sprintf("closed=%v", c.Closed), fmt.Sprintf("D=%v", c.D))
			col.Sample(c)
			if !ok && !col.KindFull(kind) {
				col.Violate(Violation{Property: "C16", Kind: kind, Signature: sigOf(c), Detail: detail, Case: c, Stream: "c16", Index: i, Seed: ctx.Seed})
			}
		})
		return col.Finish()
	}
	replays["c16-search"] = func(ctx *Ctx, o *Oracle, raw json.RawMessage) *Violation {
		var c simpCase
		if err := json.Unmarshal(raw, &c); err != nil {
			fatal("replay case: %v", err)
		}
		if ok, kind, detail := c16Check(o, c); !ok {
			return &Violation{Property: "C16", Kind: kind, Signature: sigOf(c), Detail: detail, Case: c}
		}
		return nil
	}
}
