import ClipVerif.Gen.Funcs
/-
Hand model of `TrimCollinear64` (clipper.go).  The index loops are transcribed literally
(`i`, `l` as in the Go code); the collinearity predicate is the *generated* `Gen.isCollinear`.
Tied to the code by the function-level correspondence stage `models-corr`.
-/
namespace Model
open Gen

/-- first loop: `for i < l-1 && isCollinear(path[l-1], path[i], path[i+1]) { i++ }` -/
def trimSkipFront (p : Array Point64) (l : Nat) (i : Nat) : Nat :=
  if h : i + 1 < l then
    if isCollinear p[l-1]! p[i]! p[i+1]! then trimSkipFront p l (i + 1) else i
  else i
termination_by l - i

/-- second loop: `for i < l-1 && isCollinear(path[l-2], path[l-1], path[i]) { l-- }` -/
def trimSkipBack (p : Array Point64) (i : Nat) (l : Nat) : Nat :=
  if h : i + 1 < l then
    if isCollinear p[l-2]! p[l-1]! p[i]! then trimSkipBack p i (l - 1) else l
  else l
termination_by l

/-- main loop: `for i++; i < l-1; i++ { if isCollinear(last, path[i], path[i+1]) {continue}; last = path[i]; append }` -/
def trimMain (p : Array Point64) (l : Nat) (i : Nat) (last : Point64) (res : Array Point64) :
    Point64 × Array Point64 :=
  if h : i + 1 < l then
    if isCollinear last p[i]! p[i+1]! then trimMain p l (i + 1) last res
    else trimMain p l (i + 1) p[i]! (res.push p[i]!)
  else (last, res)
termination_by l - i

/-- closing loop: `for len(result) > 2 && isCollinear(result[len-1], result[len-2], result[0]) { pop }` -/
def trimClose (res : Array Point64) : Array Point64 :=
  if h : 2 < res.size then
    if isCollinear res[res.size-1]! res[res.size-2]! res[0]! then trimClose res.pop else res
  else res
termination_by res.size
decreasing_by simp [Array.size_pop]; omega

def trimCollinear (path : Array Point64) (isOpen : Bool) : Array Point64 :=
  let l0 := path.size
  let (i, l) :=
    if !isOpen then
      let i := trimSkipFront path l0 0
      (i, trimSkipBack path i l0)
    else (0, l0)
  if l - i < 3 ∨ l < i then
    if !isOpen || l < 2 || path[0]! == path[1]! then #[] else path
  else
    let last := path[i]!
    let (last, res) := trimMain path l (i + 1) last #[last]
    if isOpen then res.push path[l-1]!
    else if !isCollinear last path[l-1]! res[0]! then res.push path[l-1]!
    else
      let res := trimClose res
      if res.size < 3 then #[] else res

end Model
