import ClipVerif.Model.Conv
namespace Proofs.C02
end Proofs.C02
