import ClipVerif.Spec.Wind
/-
Sample judge for the offsetting properties (C05, C10).  The harness proposes sample points as exact
rationals; every verdict below is computed with the plain definitions (`Spec.windS`,
`Spec.dist2Seg`), including the *precondition* of each sample, so a sample whose precondition does
not hold exactly is skipped, never judged.

input region: for closed inputs the even-odd region of the input paths (interior points have
distance 0), for open inputs the polyline itself.
kinds (r = bound, compared as r²):
  1 A: dist(p, input region) ≤ r  ⇒  p ∈ S
  2 B: dist(p, input edges) ≤ r or p ∉ input region  ⇒  p ∉ S          (shrinking)
  3 C: dist(p, input region) ≤ r                                        (p is a point of S's boundary)
  4 D: p ∈ input region (or on its boundary) and dist(p, input edges) ≥ r
  5 E: p ∈ input region and dist(p, input edges) ≥ r  ⇒  p ∈ S          (shrinking)
  6 G: p ∉ S
  7: p ∈ S  ⇒  p ∈ input region and dist(p, input edges) ≥ r          (shrinking)
  8: p ∈ S  ⇒  dist(p, input region) ≤ r
  9: as 7 with the distance measured along edge normals only (non-round joins)
Points lying on an edge of S are skipped for the membership kinds.
-/
namespace Check
open Spec

structure OSample where
  p : QPt
  kind : Nat
  r2 : Rat

def minDist2 (segs : List (IPt × IPt)) (p : QPt) : Option Rat :=
  segs.foldl (fun acc s => let d := dist2Seg s.1 s.2 p
    match acc with | none => some d | some m => some (if d < m then d else m)) none

/-- squared distance to the segments measured along their normals only: segments onto whose
    interior p does not project are ignored -/
def normalDist2 (segs : List (IPt × IPt)) (p : QPt) : Option Rat :=
  segs.foldl (fun acc s =>
    let dx : Rat := ((s.2.x - s.1.x : Int) : Rat); let dy : Rat := ((s.2.y - s.1.y : Int) : Rat)
    let len2 := dx * dx + dy * dy
    if len2 == 0 then acc
    else
      let t := ((p.x - (s.1.x : Rat)) * dx + (p.y - (s.1.y : Rat)) * dy) / len2
      if t < 0 ∨ t > 1 then acc
      else
        let d := dist2Seg s.1 s.2 p
        match acc with | none => some d | some m => some (if d < m then d else m)) none

def segsOpen (path : List IPt) : List (IPt × IPt) :=
  match path with
  | [] => []
  | [a] => [(a, a)]
  | _ :: rest => path.zip rest

def judgeOffset (sol input : List (List IPt)) (closedInput : Bool) (samples : List OSample) : String := Id.run do
  let inSegs := if closedInput then input.flatMap edgesOf else input.flatMap segsOpen
  let inRegion (p : QPt) : Bool := closedInput && (windS input p % 2 != 0)
  let mut judged := 0
  let mut skipped := 0
  for s in samples do
    let dE := (minDist2 inSegs s.p).getD 0
    let dR := if inRegion s.p then 0 else dE
    let onS := onPaths sol s.p
    let inS := windS sol s.p != 0
    let fail (msg : String) : String :=
      s!"bad kind={s.kind} p={s.p.x.num}/{s.p.x.den},{s.p.y.num}/{s.p.y.den} {msg} dist2ToInputRegion={dR.num}/{dR.den} dist2ToEdges={dE.num}/{dE.den} bound2={s.r2.num}/{s.r2.den}"
    match s.kind with
    | 1 => if decide (dR ≤ s.r2) && !onS then
             judged := judged + 1
             if !inS then return fail "must be inside the solution"
           else skipped := skipped + 1
    | 2 => if (decide (dE ≤ s.r2) || (closedInput && !inRegion s.p && decide (dE > 0))) && !onS then
             judged := judged + 1
             if inS then return fail "must be outside the solution"
           else skipped := skipped + 1
    | 3 => judged := judged + 1
           if dR > s.r2 then return fail "solution boundary point too far from the input region"
    | 4 => judged := judged + 1
           if !(inRegion s.p || dE == 0) || decide (dE < s.r2) then return fail "solution boundary point not deep enough inside the input region"
    | 5 => if inRegion s.p && decide (dE ≥ s.r2) && !onS then
             judged := judged + 1
             if !inS then return fail "deep interior point must stay inside the solution"
           else skipped := skipped + 1
    | 7 => if inS && !onS then
             judged := judged + 1
             if !(inRegion s.p || dE == 0) || decide (dE < s.r2) then return fail "a point of the solution is not deep enough inside the input region"
           else skipped := skipped + 1
    | 9 => if inS && !onS then
             judged := judged + 1
             match normalDist2 inSegs s.p with
             | some dn => if !(inRegion s.p || dE == 0) || decide (dn < s.r2) then return fail "a point of the solution is closer to an input edge (along its normal) than allowed"
             | none => if !(inRegion s.p || dE == 0) then return fail "a point of the solution lies outside the input region"
           else skipped := skipped + 1
    | 8 => if inS && !onS then
             judged := judged + 1
             if dR > s.r2 then return fail "a point of the solution is too far from the input region"
           else skipped := skipped + 1
    | _ => if !onS then
             judged := judged + 1
             if inS then return fail "must be outside the solution"
           else skipped := skipped + 1
  return s!"ok judged={judged} skipped={skipped}"

end Check
