import ClipVerif.Gen.Funcs
/-
Hand model of the assembly of output rings during the sweep (closed paths): `addLocalMinPoly`,
`addLocalMaxPoly`, `joinOutrecPaths`, `newOutRec` (clipper_base.go), `addOutPt`, `swapOutrecs`, `setSides`,
`setOwner`, `getPrevHotEdge`, `outrecIsAscending`, `isFront`, `uncoupleOutRec` (engine.go), as a state
machine over

* the active edges, numbered in AEL order (the order is fixed: these functions only read `prevInAEL`),
  each with the index of its output record (`none` = the edge is cold);
* the table of output records (`outrecList`): for each its ring, its front and back edge and its owner.

A ring is the list of the points of the circular `OutPt` list read from `outrec.pts` along `next`
(`[]` = `pts == nil`); `outrec.pts` is the front tip, `outrec.pts.next` the back tip.
No joined edges (`split` is not modelled), no open paths.  Tied to the code by `models-corr ring`
(hook `VRingOps`).
-/
namespace Model.Ring
open Gen

structure Rec where
  pts : List Point64 := []
  front : Option Nat := none
  back : Option Nat := none
  owner : Option Nat := none
  deriving DecidableEq, Repr, Inhabited

structure St where
  recs : List Rec := []
  edgeRec : List (Option Nat) := []      -- per edge: index of its output record
  succeeded : Bool := true
  deriving DecidableEq, Repr, Inhabited

inductive Op where
  | min (e1 e2 : Nat) (pt : Point64) (isNew : Bool)   -- addLocalMinPoly
  | pt (e : Nat) (pt : Point64)                         -- addOutPt
  | max (e1 e2 : Nat) (pt : Point64)                    -- addLocalMaxPoly
  | swap (e1 e2 : Nat)                                  -- swapOutrecs
  deriving DecidableEq, Repr, Inhabited

def St.recOf (s : St) (e : Nat) : Option Nat := (s.edgeRec.getD e none)
def St.getRec (s : St) (r : Nat) : Rec := s.recs.getD r ({} : Rec)
def St.setRec (s : St) (r : Nat) (x : Rec) : St := { s with recs := s.recs.set r x }
def St.setEdge (s : St) (e : Nat) (r : Option Nat) : St := { s with edgeRec := s.edgeRec.set e r }

/-- `isFront(ae)`: `none` when the edge is cold (the real code dereferences a nil `outrec`) -/
def isFront (s : St) (e : Nat) : Option Bool :=
  (s.recOf e).map fun r => (s.getRec r).front == some e

/-- `getPrevHotEdge`: the nearest hot edge left of `e` -/
def prevHot (s : St) (e : Nat) : Option Nat :=
  ((List.range e).reverse.find? fun k => (s.recOf k).isSome)

/-- first loop of `setOwner`: skip owners that have lost their points -/
def skipEmptyOwners : Nat → St → Nat → St
  | 0, s, _ => s
  | fuel + 1, s, r =>
    match (s.getRec r).owner with
    | some o =>
      if (s.getRec o).pts.isEmpty then skipEmptyOwners fuel (s.setRec r { s.getRec r with owner := (s.getRec o).owner }) r
      else s
    | none => s

/-- second loop of `setOwner`: is `target` on the owner chain that starts at `r`? -/
def onChain : Nat → St → Option Nat → Nat → Bool
  | 0, _, _, _ => false
  | _, _, none, _ => false
  | fuel + 1, s, some r, target => if r == target then true else onChain fuel s (s.getRec r).owner target

/-- `setOwner(outrec, newOwner)` -/
def setOwner (s : St) (outrec newOwner : Nat) : St :=
  let s := skipEmptyOwners (s.recs.length + 1) s newOwner
  let s := if onChain (s.recs.length + 1) s (some newOwner) outrec
           then s.setRec newOwner { s.getRec newOwner with owner := (s.getRec outrec).owner } else s
  s.setRec outrec { s.getRec outrec with owner := some newOwner }

/-- the ring after `addOutPt` and the position (0 or 1) of the returned point in it -/
def addPtRing (ring : List Point64) (toFront : Bool) (p : Point64) : List Point64 × Nat :=
  match ring with
  | [] => ([], 0)       -- unreachable: guarded by the caller
  | f :: rest =>
    let back := rest.headD f
    if toFront && p == f then (ring, 0)
    else if !toFront && p == back then (ring, if rest.isEmpty then 0 else 1)
    else if toFront then (p :: rest ++ [f], 0)
    else (f :: p :: rest, 1)

/-- `addOutPt(ae, pt)`; `none` = nil dereference (cold edge, or a record without points) -/
def addOutPt (s : St) (e : Nat) (p : Point64) : Option (St × Nat) :=
  match s.recOf e with
  | none => none
  | some r =>
    let rc := s.getRec r
    if rc.pts.isEmpty then none
    else
      let res := addPtRing rc.pts (rc.front == some e) p
      some (s.setRec r { rc with pts := res.1 }, res.2)

/-- `addLocalMinPoly(ae1, ae2, pt, isNew)` for closed paths -/
def addLocalMinPoly (s : St) (e1 e2 : Nat) (p : Point64) (isNew usingTree : Bool) : St :=
  let r := s.recs.length
  let s := { s with recs := s.recs ++ [({} : Rec)] }
  let s := (s.setEdge e1 (some r)).setEdge e2 (some r)
  let s :=
    match prevHot s e1 with
    | some k =>
      let pr := (s.recOf k).getD 0
      let s := if usingTree then setOwner s r pr else s
      let s := s.setRec r { s.getRec r with owner := some pr }
      let ascending := (s.getRec pr).front == some k
      if ascending == isNew then s.setRec r { s.getRec r with front := some e2, back := some e1 }
      else s.setRec r { s.getRec r with front := some e1, back := some e2 }
    | none =>
      let s := s.setRec r { s.getRec r with owner := none }
      if isNew then s.setRec r { s.getRec r with front := some e1, back := some e2 }
      else s.setRec r { s.getRec r with front := some e2, back := some e1 }
  s.setRec r { s.getRec r with pts := [p] }

/-- `joinOutrecPaths(ae1, ae2)` (both hot, different records) -/
def joinOutrecPaths (s : St) (e1 e2 : Nat) : Option St :=
  match s.recOf e1, s.recOf e2 with
  | some r1, some r2 =>
    match (s.getRec r1).pts, (s.getRec r2).pts with
    | f1 :: t1, f2 :: t2 =>
      let rc1 := s.getRec r1
      let rc2 := s.getRec r2
      let s :=
        if rc1.front == some e1 then
          let s := s.setRec r1 { rc1 with pts := f2 :: t1 ++ [f1] ++ t2, front := rc2.front }
          match rc2.front with
          | some fe => s.setEdge fe (some r1)
          | none => s
        else
          let s := s.setRec r1 { rc1 with pts := f1 :: t2 ++ [f2] ++ t1, back := rc2.back }
          match rc2.back with
          | some be => s.setEdge be (some r1)
          | none => s
      let s := s.setRec r2 { s.getRec r2 with front := none, back := none, pts := [] }
      let s := setOwner s r2 r1
      some ((s.setEdge e1 none).setEdge e2 none)
    | _, _ => none
  | _, _ => none

/-- `uncoupleOutRec(ae)` -/
def uncouple (s : St) (e : Nat) : St :=
  match s.recOf e with
  | none => s
  | some r =>
    let rc := s.getRec r
    let s := match rc.front with | some fe => s.setEdge fe none | none => s
    let s := match rc.back with | some be => s.setEdge be none | none => s
    s.setRec r { s.getRec r with front := none, back := none }

/-- `addLocalMaxPoly(ae1, ae2, pt)` for closed, unjoined edges -/
def addLocalMaxPoly (s : St) (e1 e2 : Nat) (p : Point64) (usingTree : Bool) : Option St :=
  match isFront s e1, isFront s e2 with
  | some f1, some f2 =>
    if f1 == f2 then some { s with succeeded := false }
    else
      match addOutPt s e1 p with
      | none => none
      | some (s, pos) =>
        if s.recOf e1 == s.recOf e2 then
          let r := (s.recOf e1).getD 0
          -- outrec.pts = result: the ring is read from the returned point on
          let s := s.setRec r { s.getRec r with pts := (s.getRec r).pts.rotateLeft pos }
          let s :=
            if usingTree then
              match prevHot s e1 with
              | none => s.setRec r { s.getRec r with owner := none }
              | some k => setOwner s r ((s.recOf k).getD 0)
            else s
          some (uncouple s e1)
        else
          let r1 := (s.recOf e1).getD 0
          let r2 := (s.recOf e2).getD 0
          if r1 < r2 then joinOutrecPaths s e1 e2 else joinOutrecPaths s e2 e1
  | _, _ => none

/-- the side of a record that `old` occupied is given to `new` (`frontEdge == old` is tested, anything else counts as the back) -/
def replaceSide (rc : Rec) (old new : Nat) : Rec :=
  if rc.front == some old then { rc with front := some new } else { rc with back := some new }

/-- `swapOutrecs(ae1, ae2)` -/
def swapOutrecs (s : St) (e1 e2 : Nat) : St :=
  let o1 := s.recOf e1
  let o2 := s.recOf e2
  if o1.isSome && o1 == o2 then
    let r := o1.getD 0
    let rc := s.getRec r
    s.setRec r { rc with front := rc.back, back := rc.front }
  else
    let s := match o1 with
      | some r1 => s.setRec r1 (replaceSide (s.getRec r1) e1 e2)
      | none => s
    let s := match o2 with
      | some r2 => s.setRec r2 (replaceSide (s.getRec r2) e2 e1)
      | none => s
    (s.setEdge e1 o2).setEdge e2 o1

def step (usingTree : Bool) (s : St) : Op → Option St
  | .min e1 e2 p isNew => some (addLocalMinPoly s e1 e2 p isNew usingTree)
  | .pt e p => (addOutPt s e p).map (·.1)
  | .max e1 e2 p => addLocalMaxPoly s e1 e2 p usingTree
  | .swap e1 e2 => some (swapOutrecs s e1 e2)

def run (usingTree : Bool) (n : Nat) (ops : List Op) : Option St :=
  ops.foldlM (step usingTree) { edgeRec := List.replicate n none }

/-- the open polyline a ring stands for while it is being built: from the front tip back through the
older front points, the start, and forward to the back tip -/
def path (ring : List Point64) : List Point64 :=
  match ring with
  | [] => []
  | f :: rest => f :: rest.reverse

end Model.Ring
