import ClipVerif.Check.Exact
/-
Exact judges for the path utilities (C15 TrimCollinear64, C16 SimplifyPath64): plain list
predicates over unbounded integers / rationals.
-/
namespace PathProps
open Spec Exact

/-- `sub` is a subsequence of `l` -/
def isSubseq : List IPt → List IPt → Bool
  | [], _ => true
  | _ :: _, [] => false
  | a :: as, b :: bs => if a == b then isSubseq as bs else isSubseq (a :: as) bs

def rotations (l : List IPt) : List (List IPt) :=
  (List.range l.length).map (fun k => l.drop k ++ l.take k)

/-- cyclic subsequence: a subsequence of some rotation of `l` -/
def isCyclicSubseq (sub l : List IPt) : Bool :=
  sub.isEmpty || (rotations l).any (fun r => isSubseq sub r)

/-- cyclically consecutive triples of a closed path -/
def triples (l : List IPt) : List (IPt × IPt × IPt) :=
  match l with
  | a :: b :: _ :: _ => (l.zip ((l.drop 1 ++ [a]).zip (l.drop 2 ++ [a, b])))
  | _ => []

def noThreeCollinear (l : List IPt) : Option (IPt × IPt × IPt) :=
  (triples l).find? (fun t => collinear t.1 t.2.1 t.2.2)

/-- verdict for TrimCollinear64 on a closed path -/
def trimClosed (inp out : List IPt) : String :=
  if !(isCyclicSubseq out inp) then "bad not-a-cyclic-subsequence"
  else if out.length == 1 || out.length == 2 then "bad fewer-than-3-vertices-returned"
  else if area2 out != area2 inp then s!"bad area changed {area2 inp} -> {area2 out}"
  else match noThreeCollinear out with
    | some (a, b, c) =>
      -- position of the middle vertex of the collinear triple in the result (0 = across the seam)
      let idx := (out.findIdx? (· == b)).getD 0
      s!"bad three-collinear ({a.x},{a.y}) ({b.x},{b.y}) ({c.x},{c.y}) at={idx} of={out.length}"
    | none => "ok"

def trimOpen (inp out : List IPt) : String :=
  if !(isSubseq out inp) then "bad not-a-subsequence"
  else if inp.length ≥ 2 && !out.isEmpty && (out.head? != inp.head? || out.getLast? != inp.getLast?) then "bad end-point-dropped"
  else "ok"

/-- squared distance (exact) from p to the line through a, b (0 if a = b, as the library defines it) -/
def perpDist2 (p a b : IPt) : Rat :=
  let c := b.x - a.x; let d := b.y - a.y
  if c == 0 && d == 0 then 0
  else
    let cr : Int := (p.x - a.x) * d - c * (p.y - a.y)
    ((cr * cr : Int) : Rat) / ((c * c + d * d : Int) : Rat)

/-- verdict for SimplifyPath64: `eps2` = ε² exactly (as a rational), `slack` relative tolerance for
    the float64 evaluation of the distance at the threshold -/
def simplify (inp out : List IPt) (closed : Bool) (eps2 : Rat) : String :=
  if inp.length < 4 then (if out == inp then "ok" else "bad short-path-changed")
  else if !(isSubseq out inp) then "bad not-a-subsequence"
  else if !closed && (out.head? != inp.head? || out.getLast? != inp.getLast?) then "bad end-point-dropped"
  else if out.length ≤ 2 then "ok"
  else
    let trs := if closed then triples out
      else (out.zip ((out.drop 1).zip (out.drop 2)))
    let lim := eps2 * (1 - 1 / 1000000000)
    match trs.find? (fun t => decide (perpDist2 t.2.1 t.1 t.2.2 < lim) || (eps2 == 0 && perpDist2 t.2.1 t.1 t.2.2 == 0)) with
    | some (a, b, c) => s!"bad retained-vertex-within-epsilon ({a.x},{a.y}) ({b.x},{b.y}) ({c.x},{c.y})"
    | none =>
      if eps2 == 0 && closed && area2 out != area2 inp then s!"bad area changed at epsilon 0: {area2 inp} -> {area2 out}"
      else "ok"

end PathProps
