import ClipVerif.Facts.Tables
namespace Proofs.C12
end Proofs.C12
