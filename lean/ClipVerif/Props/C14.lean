import ClipVerif.Proofs.C14
import ClipVerif.Proofs.C14b
import ClipVerif.Proofs.C14c
import ClipVerif.Model.PIP
import ClipVerif.Model.Conv
import ClipVerif.Proofs.PIP
/-
C14 — geometric measures and predicates are exact.  Theorems only; helper lemmas are in
`ClipVerif/Proofs/C14.lean`.  All statements are about the *generated* model `Gen.*`
(regenerated from /repo on every run).
-/
namespace C14
open Gen

/-- 128-bit product of two 64-bit words is exact for all operands -/
theorem mulU64_correct (a b : UInt64) :
    (multiplyUInt64 a b).Hi64.toNat * 2 ^ 64 + (multiplyUInt64 a b).Lo64.toNat = a.toNat * b.toNat :=
  Proofs.C14.mulU64_correct a b

/-- `triSign` is the sign function — FALSE on the current tree (KNOWN_FINDINGS: site:triSign-plus-one).
    The full statement is kept visible; its negation is proved with the witness x = 1. -/
def triSign_spec_full : Prop :=
  ∀ x : Int64, triSign x = if x.toInt < 0 then -1 else if x.toInt = 0 then 0 else 1

theorem triSign_spec_full_false : ¬ triSign_spec_full := Proofs.C14.triSign_spec_full_false

/-- what does hold: sign function everywhere except at x = 1 -/
theorem triSign_spec_partial (x : Int64) (h1 : x ≠ 1) :
    triSign x = if x.toInt < 0 then -1 else if x.toInt = 0 then 0 else 1 :=
  Proofs.C14.triSign_spec_partial x h1

/-- products are compared exactly (operands below 2^53 so that the float64 detour is exact);
    partial: no operand equal to +1 (triSign defect) -/
theorem productsAreEqual_iff_partial (a b c d : Int64)
    (ha : a.toInt.natAbs ≤ 2 ^ 53) (hb : b.toInt.natAbs ≤ 2 ^ 53)
    (hc : c.toInt.natAbs ≤ 2 ^ 53) (hd : d.toInt.natAbs ≤ 2 ^ 53)
    (h1 : a ≠ 1 ∧ b ≠ 1 ∧ c ≠ 1 ∧ d ≠ 1) :
    productsAreEqual a b c d = true ↔ a.toInt * b.toInt = c.toInt * d.toInt :=
  Proofs.C14.productsAreEqual_iff_partial a b c d ha hb hc hd h1

/-- the full-strength statement is false today: witness (1, -2, 2, 1) -/
theorem productsAreEqual_iff_full_false :
    ¬ (∀ a b c d : Int64, a.toInt.natAbs ≤ 2 ^ 53 → b.toInt.natAbs ≤ 2 ^ 53 →
        c.toInt.natAbs ≤ 2 ^ 53 → d.toInt.natAbs ≤ 2 ^ 53 →
        (productsAreEqual a b c d = true ↔ a.toInt * b.toInt = c.toInt * d.toInt)) :=
  Proofs.C14.productsAreEqual_iff_full_false

/-- three points are collinear for the library iff their exact integer cross product is zero
    (coordinates within 2^29); partial: no coordinate difference handed to the sign function is +1 -/
theorem isCollinear_iff_cross_zero_partial (p1 p2 p3 : Point64)
    (h1 : p1.inRange) (h2 : p2.inRange) (h3 : p3.inRange)
    (hne : p2.X - p1.X ≠ 1 ∧ p3.Y - p2.Y ≠ 1 ∧ p2.Y - p1.Y ≠ 1 ∧ p3.X - p2.X ≠ 1) :
    isCollinear p1 p2 p3 = true ↔ crossZ p1 p2 p3 = 0 :=
  Proofs.C14.isCollinear_iff_cross_zero_partial p1 p2 p3 h1 h2 h3 hne

/-- replayed on the real code: isCollinear((0,0),(1,2),(2,0)) = true although the cross product is −4 -/
theorem isCollinear_full_false :
    isCollinear ⟨0, 0⟩ ⟨1, 2⟩ ⟨2, 0⟩ = true ∧ crossZ ⟨0, 0⟩ ⟨1, 2⟩ ⟨2, 0⟩ = -4 :=
  Proofs.C14.isCollinear_full_false

/-- the float64 returned by CrossProduct has the sign (and zero-ness) of the exact cross product -/
theorem crossProduct_sign (p1 p2 p3 : Point64) (h1 : p1.inRange) (h2 : p2.inRange) (h3 : p3.inRange) :
    (CrossProduct p1 p2 p3 = 0 ↔ crossZ p1 p2 p3 = 0) ∧
    (CrossProduct p1 p2 p3 < 0 ↔ crossZ p1 p2 p3 < 0) ∧
    (CrossProduct p1 p2 p3 > 0 ↔ crossZ p1 p2 p3 > 0) :=
  Proofs.C14.crossProduct_sign p1 p2 p3 h1 h2 h3

/-- Area64's integer accumulator is the exact doubled shoelace sum reduced mod 2^64, for every
    path of every length and whatever the intermediate wrap-arounds -/
theorem area64_accumulator (path : List Point64) (h : 3 ≤ path.length) :
    Area64 path = .ok (Int64.ofInt (Spec.area2 (pathToI path))) :=
  Proofs.C14.area64_accumulator path h

/-- hence exact whenever the true sum fits in 64 bits -/
theorem area64_exact (path : List Point64) (h : 3 ≤ path.length)
    (hfit : -(2:Int)^63 ≤ Spec.area2 (pathToI path) ∧ Spec.area2 (pathToI path) < (2:Int)^63) :
    ∃ a, Area64 path = .ok a ∧ a.toInt = Spec.area2 (pathToI path) :=
  Proofs.C14.area64_exact path h hfit

theorem area64_short (path : List Point64) (h : path.length < 3) : Area64 path = .ok 0 :=
  Proofs.C14.area64_short path h

/-- getBounds returns the exact extremes of a non-empty path -/
theorem getBounds_exact (path : List Point64) (hne : path ≠ []) :
    let r := getBounds path
    (∀ p ∈ path, r.left ≤ p.X ∧ p.X ≤ r.right ∧ r.top ≤ p.Y ∧ p.Y ≤ r.bottom) ∧
    (∃ p ∈ path, p.X = r.left) ∧ (∃ p ∈ path, p.X = r.right) ∧
    (∃ p ∈ path, p.Y = r.top) ∧ (∃ p ∈ path, p.Y = r.bottom) :=
  Proofs.C14.getBounds_exact path hne

/-- GetBounds64 likewise (coordinates in range, so the MaxInt64 sentinel is never a coordinate) -/
theorem GetBounds64_exact (path : List Point64) (hne : path ≠ []) (hr : ∀ p ∈ path, p.inRange) :
    let r := GetBounds64 path
    (∀ p ∈ path, r.left ≤ p.X ∧ p.X ≤ r.right ∧ r.top ≤ p.Y ∧ p.Y ≤ r.bottom) ∧
    (∃ p ∈ path, p.X = r.left) ∧ (∃ p ∈ path, p.X = r.right) ∧
    (∃ p ∈ path, p.Y = r.top) ∧ (∃ p ∈ path, p.Y = r.bottom) :=
  Proofs.C14.GetBounds64_exact path hne hr

theorem GetBounds64_empty : GetBounds64 [] = ⟨0, 0, 0, 0⟩ := Proofs.C14.GetBounds64_empty

/-- non-vacuity: a concrete triple meets the hypotheses of the collinearity theorem -/
example : (⟨0, 0⟩ : Point64).inRange ∧ (⟨2, 4⟩ : Point64).inRange ∧
    ((⟨2, 4⟩ : Point64).X - (⟨0, 0⟩ : Point64).X ≠ 1) := by
  refine ⟨by unfold Point64.inRange; decide, by unfold Point64.inRange; decide, by decide⟩

/-- `PointInPolygon` is exact (even-odd sense) within the coordinate domain: IsOn (0) exactly on the
    boundary, IsInside (1) exactly where the winding number is odd, IsOutside (2) elsewhere — for
    every polygon of at least three vertices that is not contained in the horizontal line through
    the point.  About the hand model `Model.pointInPolygon` (tied by `models-corr pip`), which calls
    the generated `CrossProduct`. -/
theorem pip_correct (pt : Point64) (poly : Array Point64)
    (hp : pt.inRange) (hr : ∀ q ∈ poly.toList, q.inRange) (h3 : 3 ≤ poly.size)
    (hflat : ∃ q ∈ poly.toList, q.Y ≠ pt.Y) :
    Model.pointInPolygon pt poly =
      (if Spec.onPath (pathToI poly.toList) ⟨(pt.X.toInt : Rat), (pt.Y.toInt : Rat)⟩ then 0
       else if Spec.wind (pathToI poly.toList) ⟨(pt.X.toInt : Rat), (pt.Y.toInt : Rat)⟩ % 2 ≠ 0 then 1 else 2) :=
  Proofs.PIP.pip_correct pt poly hp hr h3 hflat

/-- `segsIntersect` (exclusive form, used by `fixSelfIntersects`) is exact within the coordinate
    domain: it holds exactly when the end points of each segment lie strictly on opposite sides of
    the other segment's line, by exact integer cross products -/
theorem segsIntersect_exclusive_exact (a b c d : Point64)
    (ha : a.inRange) (hb : b.inRange) (hc : c.inRange) (hd : d.inRange) :
    segsIntersect a b c d false = true ↔
      (crossZ a c d * crossZ b c d < 0 ∧ crossZ c a b * crossZ d a b < 0) :=
  Proofs.C14c.segsIntersect_exclusive_exact a b c d ha hb hc hd

/-- the inclusive form: no strict same-side pair, and not all four cross products zero -/
theorem segsIntersect_inclusive_exact (a b c d : Point64)
    (ha : a.inRange) (hb : b.inRange) (hc : c.inRange) (hd : d.inRange) :
    segsIntersect a b c d true = true ↔
      (¬ (0 < crossZ a c d * crossZ b c d) ∧ ¬ (0 < crossZ c a b * crossZ d a b) ∧
       ¬ (crossZ a c d = 0 ∧ crossZ b c d = 0 ∧ crossZ c a b = 0 ∧ crossZ d a b = 0)) :=
  Proofs.C14c.segsIntersect_inclusive_exact a b c d ha hb hc hd

end C14
