import ClipVerif.Proofs.Wind
import ClipVerif.Proofs.C01
/- the decision table of `intersectEdges` keeps "hot ↔ contributing" (Props/C01.lean) -/
namespace Proofs.WindIx
open Gen Spec Model Proofs.Wind

/-- closed form of `clipperBase_isContributingClosed (mkEng ct fr)` -/
def contribB (ct fr pt : Nat) (wc wc2 : Int) : Bool :=
  (if fr = 2 then decide (wc = 1) else if fr = 3 then decide (wc = -1)
   else if fr = 1 then decide (wc = 1 ∨ wc = -1) else true) &&
  (if ct = 1 then
      (if fr = 2 then decide (wc2 > 0) else if fr = 3 then decide (wc2 < 0) else decide (wc2 ≠ 0))
   else if ct = 2 then
      (if fr = 2 then decide (wc2 ≤ 0) else if fr = 3 then decide (wc2 ≥ 0) else decide (wc2 = 0))
   else if ct = 3 then
      (if pt = 0 then
        (if fr = 2 then decide (wc2 ≤ 0) else if fr = 3 then decide (wc2 ≥ 0) else decide (wc2 = 0))
       else
        !(if fr = 2 then decide (wc2 ≤ 0) else if fr = 3 then decide (wc2 ≥ 0) else decide (wc2 = 0)))
   else if ct = 4 then true else false)

theorem contrib_eq (ct fr : Nat) (a : Active)
    (hct : ct = 1 ∨ ct = 2 ∨ ct = 3 ∨ ct = 4) (hfr : fr ≤ 3) :
    clipperBase_isContributingClosed (mkEng ct fr) a =
      contribB ct fr a.localMin.PolyType a.windCount a.windCount2 := by
  have hab := Proofs.C01.abs_round53_eq_one a.windCount
  have hfr' : fr = 0 ∨ fr = 1 ∨ fr = 2 ∨ fr = 3 := by omega
  rcases hct with rfl | rfl | rfl | rfl <;> rcases hfr' with rfl | rfl | rfl | rfl <;>
    simp [clipperBase_isContributingClosed, mkEng, contribB, getPolyType,
      C_Positive, C_Negative, C_NonZero, C_Intersection, C_Union, C_Difference, C_Xor, C_Subject,
      Id.run, pure, hab] <;>
    grind

/-- `intersectDecide` with the updated edges as parameters -/
def decideCore (ct fr : Nat) (a1 a2 : Active) (hot1 hot2 front1 same : Bool) :
    Active × Active × IxAction × Bool × Bool :=
  let old1 := normCount fr a1.windCount
  let old2 := normCount fr a2.windCount
  let is01_1 := old1 = 0 ∨ old1 = 1
  let is01_2 := old2 = 0 ∨ old2 = 1
  if (!hot1 && !decide is01_1) || (!hot2 && !decide is01_2) then (a1, a2, .none, hot1, hot2)
  else if hot1 && hot2 then
    if !decide is01_1 || !decide is01_2 || (getPolyType a1 != getPolyType a2 && ct != C_Xor) then
      (a1, a2, .localMax, false, false)
    else if front1 || same then (a1, a2, .localMaxMin, true, true)
    else (a1, a2, .swapBothHot, true, true)
  else if hot1 then (a1, a2, .passLeftToRight, false, true)
  else if hot2 then (a1, a2, .passRightToLeft, true, false)
  else
    let w1 := normCount fr a1.windCount2
    let w2 := normCount fr a2.windCount2
    if getPolyType a1 != getPolyType a2 then (a1, a2, .localMin, true, true)
    else if old1 = 1 ∧ old2 = 1 then
      let mk : Bool :=
        if ct = C_Union then !(decide (w1 > 0) && decide (w2 > 0))
        else if ct = C_Difference then
          (getPolyType a1 == C_Clip && decide (w1 > 0) && decide (w2 > 0)) ||
          (getPolyType a1 == C_Subject && decide (w1 ≤ 0) && decide (w2 ≤ 0))
        else if ct = C_Xor then true
        else !(decide (w1 ≤ 0) || decide (w2 ≤ 0))
      if mk then (a1, a2, .localMin, true, true) else (a1, a2, .none, false, false)
    else (a1, a2, .none, false, false)

theorem intersectDecide_eq (ct fr : Nat) (e1 e2 : Active) (hot1 hot2 front1 same : Bool) :
    intersectDecide ct fr e1 e2 hot1 hot2 front1 same =
      decideCore ct fr (intersectWind fr e1 e2).1 (intersectWind fr e1 e2).2 hot1 hot2 front1 same := rfl

/-- the hot flags of the decision, over plain integers (`first` selects the flag of the first edge) -/
def hotCore (ct fr p1 p2 : Nat) (c1 k1 c2 k2 : Int) (hot1 hot2 : Bool) (first : Bool) : Bool :=
  let old1 := normCount fr c1
  let old2 := normCount fr c2
  let is01_1 := old1 = 0 ∨ old1 = 1
  let is01_2 := old2 = 0 ∨ old2 = 1
  if (!hot1 && !decide is01_1) || (!hot2 && !decide is01_2) then (if first then hot1 else hot2)
  else if hot1 && hot2 then
    if !decide is01_1 || !decide is01_2 || (p1 != p2 && ct != C_Xor) then false
    else true
  else if hot1 then !first
  else if hot2 then first
  else
    let w1 := normCount fr k1
    let w2 := normCount fr k2
    if p1 != p2 then true
    else if old1 = 1 ∧ old2 = 1 then
      let mk : Bool :=
        if ct = C_Union then !(decide (w1 > 0) && decide (w2 > 0))
        else if ct = C_Difference then
          (p1 == C_Clip && decide (w1 > 0) && decide (w2 > 0)) ||
          (p1 == C_Subject && decide (w1 ≤ 0) && decide (w2 ≤ 0))
        else if ct = C_Xor then true
        else !(decide (w1 ≤ 0) || decide (w2 ≤ 0))
      mk
    else false

theorem decideCore_fst (ct fr : Nat) (a1 a2 : Active) (hot1 hot2 front1 same : Bool) :
    (decideCore ct fr a1 a2 hot1 hot2 front1 same).1 = a1 := by
  unfold decideCore
  dsimp only
  repeat' split
  all_goals rfl

theorem decideCore_snd (ct fr : Nat) (a1 a2 : Active) (hot1 hot2 front1 same : Bool) :
    (decideCore ct fr a1 a2 hot1 hot2 front1 same).2.1 = a2 := by
  unfold decideCore
  dsimp only
  repeat' split
  all_goals rfl

theorem decideCore_hot1 (ct fr : Nat) (a1 a2 : Active) (hot1 hot2 front1 same : Bool) :
    (decideCore ct fr a1 a2 hot1 hot2 front1 same).2.2.2.1 =
      hotCore ct fr a1.localMin.PolyType a2.localMin.PolyType a1.windCount a1.windCount2
        a2.windCount a2.windCount2 hot1 hot2 true := by
  unfold decideCore hotCore
  dsimp only [getPolyType_eq]
  grind

theorem decideCore_hot2 (ct fr : Nat) (a1 a2 : Active) (hot1 hot2 front1 same : Bool) :
    (decideCore ct fr a1 a2 hot1 hot2 front1 same).2.2.2.2 =
      hotCore ct fr a1.localMin.PolyType a2.localMin.PolyType a1.windCount a1.windCount2
        a2.windCount a2.windCount2 hot1 hot2 false := by
  unfold decideCore hotCore
  dsimp only [getPolyType_eq]
  grind

theorem ix_frame (fr : Nat) (e1 e2 : Active) :
    (intersectWind fr e1 e2).1.windDx = e1.windDx ∧ (intersectWind fr e1 e2).1.localMin = e1.localMin ∧
    (intersectWind fr e1 e2).2.windDx = e2.windDx ∧ (intersectWind fr e1 e2).2.localMin = e2.localMin := by
  unfold intersectWind
  split
  · split <;> simp
  · simp

theorem encSides_pos (W : Int) : encSides W 1 = if 0 ≤ W then W + 1 else W := by
  unfold encSides encWind; (repeat' split) <;> omega

theorem encSides_neg (W : Int) : encSides W (-1) = if 1 ≤ W then W else W - 1 := by
  unfold encSides encWind; (repeat' split) <;> omega

/-- "filled" in the sense of the fill rule, through the normalised count -/
def fl (fr : Nat) (w : Int) : Bool := decide (normCount fr w > 0)

/-- the part of the contribution test that looks at the other type's winding -/
def gB (ct p : Nat) (v : Bool) : Bool :=
  if ct = 1 then v else if ct = 2 then !v else if ct = 3 then (if p = 0 then !v else v)
  else if ct = 4 then true else false

theorem feat_contrib (ct fr p : Nat) (c k : Int) (hfr : fr ≤ 3) (h0 : fr = 0 → c = 1 ∨ c = -1) :
    contribB ct fr p c k = (decide (normCount fr c = 1) && gB ct p (fl fr k)) := by
  have hfr' : fr = 0 ∨ fr = 1 ∨ fr = 2 ∨ fr = 3 := by omega
  rcases hfr' with rfl | rfl | rfl | rfl <;>
    simp [contribB, gB, fl, normCount, C_Positive, C_Negative] <;> grind

def hotB (ct p1 p2 : Nat) (z1 o1 z2 o2 v1 v2 hot1 hot2 first : Bool) : Bool :=
  if (!hot1 && !(z1 || o1)) || (!hot2 && !(z2 || o2)) then (if first then hot1 else hot2)
  else if hot1 && hot2 then
    if !(z1 || o1) || !(z2 || o2) || (p1 != p2 && ct != C_Xor) then false else true
  else if hot1 then !first
  else if hot2 then first
  else if p1 != p2 then true
  else if o1 && o2 then
    (if ct = C_Union then !(v1 && v2)
     else if ct = C_Difference then (p1 == C_Clip && v1 && v2) || (p1 == C_Subject && !v1 && !v2)
     else if ct = C_Xor then true else !(!v1 || !v2))
  else false

theorem feat_hot (ct fr p1 p2 : Nat) (c1 k1 c2 k2 : Int) (hot1 hot2 first : Bool) :
    hotCore ct fr p1 p2 c1 k1 c2 k2 hot1 hot2 first =
      hotB ct p1 p2 (decide (normCount fr c1 = 0)) (decide (normCount fr c1 = 1))
        (decide (normCount fr c2 = 0)) (decide (normCount fr c2 = 1)) (fl fr k1) (fl fr k2)
        hot1 hot2 first := by
  have hle : ∀ x : Int, decide (x ≤ 0) = !decide (0 < x) := by intro x; grind
  simp [hotCore, hotB, fl, hle]

theorem enc_norm (fr : Nat) (a d : Int) (hfr : fr = 1 ∨ fr = 2 ∨ fr = 3) (hd : d = 1 ∨ d = -1) :
    decide (normCount fr (encSides a d) = 0) = false ∧
    decide (normCount fr (encSides a d) = 1) = (fl fr a != fl fr (a + d)) := by
  rcases hfr with rfl | rfl | rfl <;> rcases hd with rfl | rfl <;>
    simp [normCount, fl, encSides_pos, encSides_neg, C_Positive, C_Negative] <;> grind

theorem bool_same_eq (ct p : Nat) (hct : ct = 1 ∨ ct = 2 ∨ ct = 3 ∨ ct = 4) (hp : p = 0 ∨ p = 1) :
    ∀ (fA fB fC v first : Bool),
    hotB ct p p false (fB != fC) false (fA != fB) v v
      ((fA != fB) && gB ct p v) ((fB != fC) && gB ct p v) first =
      if first then ((fB != fC) && gB ct p v) else ((fA != fB) && gB ct p v) := by
  rcases hct with rfl | rfl | rfl | rfl <;> rcases hp with rfl | rfl <;> decide

theorem bool_same_opp (ct p : Nat) (hct : ct = 1 ∨ ct = 2 ∨ ct = 3 ∨ ct = 4) (hp : p = 0 ∨ p = 1) :
    ∀ (fA fB fB' v first : Bool),
    hotB ct p p false (fB' != fA) false (fA != fB') v v
      ((fA != fB) && gB ct p v) ((fB != fA) && gB ct p v) first =
      if first then ((fB' != fA) && gB ct p v) else ((fA != fB') && gB ct p v) := by
  rcases hct with rfl | rfl | rfl | rfl <;> rcases hp with rfl | rfl <;> decide

/-- different types: `x…` = own-type fillings of edge 1 (left, right), `y…` = those of edge 2 -/
theorem bool_diff (ct p1 p2 : Nat) (hct : ct = 1 ∨ ct = 2 ∨ ct = 3 ∨ ct = 4)
    (hp : (p1 = 0 ∧ p2 = 1) ∨ (p1 = 1 ∧ p2 = 0)) :
    ∀ (xL xR yL yR first : Bool),
    hotB ct p1 p2 false (xL != xR) false (yL != yR) yR xL
      ((xL != xR) && gB ct p1 yL) ((yL != yR) && gB ct p2 xR) first =
      if first then ((xL != xR) && gB ct p1 yR) else ((yL != yR) && gB ct p2 xL) := by
  rcases hct with rfl | rfl | rfl | rfl <;> rcases hp with ⟨rfl, rfl⟩ | ⟨rfl, rfl⟩ <;> decide

theorem core_same (ct fr p : Nat) (d1 d2 W V : Int) (first : Bool)
    (hct : ct = 1 ∨ ct = 2 ∨ ct = 3 ∨ ct = 4) (hfr : fr = 1 ∨ fr = 2 ∨ fr = 3)
    (hp : p = 0 ∨ p = 1) (hd1 : d1 = 1 ∨ d1 = -1) (hd2 : d2 = 1 ∨ d2 = -1) :
    hotCore ct fr p p (encSides (W + d2) d1) V (encSides W d2) V
      (contribB ct fr p (encSides W d1) V) (contribB ct fr p (encSides (W + d1) d2) V) first =
      if first then contribB ct fr p (encSides (W + d2) d1) V
      else contribB ct fr p (encSides W d2) V := by
  have hfr3 : fr ≤ 3 := by omega
  have h0 : ∀ c : Int, fr = 0 → c = 1 ∨ c = -1 := fun _ h => by omega
  rw [feat_hot]
  simp only [feat_contrib _ _ _ _ _ hfr3 (h0 _), (enc_norm fr _ _ hfr hd1).1, (enc_norm fr _ _ hfr hd1).2,
    (enc_norm fr _ _ hfr hd2).1, (enc_norm fr _ _ hfr hd2).2]
  rcases hd1 with rfl | rfl <;> rcases hd2 with rfl | rfl
  · exact bool_same_eq ct p hct hp _ _ _ _ _
  · rw [Int.add_neg_cancel_right, Int.neg_add_cancel_right]
    exact bool_same_opp ct p hct hp _ _ _ _ _
  · rw [Int.add_neg_cancel_right, Int.neg_add_cancel_right]
    exact bool_same_opp ct p hct hp _ _ _ _ _
  · exact bool_same_eq ct p hct hp _ _ _ _ _

theorem core_diff (ct fr p1 p2 : Nat) (d1 d2 X Y : Int) (first : Bool)
    (hct : ct = 1 ∨ ct = 2 ∨ ct = 3 ∨ ct = 4) (hfr : fr = 1 ∨ fr = 2 ∨ fr = 3)
    (hp : (p1 = 0 ∧ p2 = 1) ∨ (p1 = 1 ∧ p2 = 0)) (hd1 : d1 = 1 ∨ d1 = -1) (hd2 : d2 = 1 ∨ d2 = -1) :
    hotCore ct fr p1 p2 (encSides X d1) (Y + d2) (encSides Y d2) X
      (contribB ct fr p1 (encSides X d1) Y) (contribB ct fr p2 (encSides Y d2) (X + d1)) first =
      if first then contribB ct fr p1 (encSides X d1) (Y + d2)
      else contribB ct fr p2 (encSides Y d2) X := by
  have hfr3 : fr ≤ 3 := by omega
  have h0 : ∀ c : Int, fr = 0 → c = 1 ∨ c = -1 := fun _ h => by omega
  rw [feat_hot]
  simp only [feat_contrib _ _ _ _ _ hfr3 (h0 _), (enc_norm fr _ _ hfr hd1).1, (enc_norm fr _ _ hfr hd1).2,
    (enc_norm fr _ _ hfr hd2).1, (enc_norm fr _ _ hfr hd2).2]
  exact bool_diff ct p1 p2 hct hp _ _ _ _ _

theorem main_nonEO (ct fr : Nat) (pre : List Active) (e1 e2 : Active)
    (front1 same : Bool)
    (hct : ct = 1 ∨ ct = 2 ∨ ct = 3 ∨ ct = 4) (hfr : fr = 1 ∨ fr = 2 ∨ fr = 3)
    (h1w : WF e1) (h2w : WF e2)
    (h1c : isOpen e1 = false) (h2c : isOpen e2 = false)
    (h1 : EdgeOK fr pre e1) (h2 : EdgeOK fr (pre ++ [e1]) e2) :
    let r := intersectDecide ct fr e1 e2
      (clipperBase_isContributingClosed (mkEng ct fr) e1)
      (clipperBase_isContributingClosed (mkEng ct fr) e2) front1 same
    r.2.2.2.1 = clipperBase_isContributingClosed (mkEng ct fr) r.1 ∧
    r.2.2.2.2 = clipperBase_isContributingClosed (mkEng ct fr) r.2.1 := by
  have hfr0 : fr ≠ 0 := by omega
  have hfr3 : fr ≤ 3 := by omega
  have hC := intersectWind_correct fr pre e1 e2 h1w h2w h1c h2c h1 h2
  have hF := ix_frame fr e1 e2
  simp only [intersectDecide_eq, decideCore_fst, decideCore_snd, decideCore_hot1, decideCore_hot2,
    contrib_eq _ _ _ hct hfr3]
  generalize intersectWind fr e1 e2 = r at hC hF ⊢
  obtain ⟨⟨d1, c1', k1', lm1'⟩, ⟨d2, c2', k2', lm2'⟩⟩ := r
  obtain ⟨d1o, c1, k1, ⟨p1, o1⟩⟩ := e1
  obtain ⟨d2o, c2, k2, ⟨p2, o2⟩⟩ := e2
  simp only at hF
  obtain ⟨rfl, rfl, rfl, rfl⟩ := hF
  simp only [WF, getPolyType_eq, isOpen_eq] at h1w h2w h1c h2c
  subst h1c h2c
  obtain ⟨hd1, hp1⟩ := h1w
  obtain ⟨hd2, hp2⟩ := h2w
  simp only [edgeOK_nonEO fr hfr0, windRight_append, windRight_single, isClosedOf, getPolyType_eq,
      isOpen_eq] at h1 h2 hC
  obtain ⟨h1a, h1b⟩ := h1
  obtain ⟨h2a, h2b⟩ := h2
  obtain ⟨⟨h3a, h3b⟩, h4a, h4b⟩ := hC
  subst h1a h1b h2a h2b h3a h3b h4a h4b
  rcases hp1 with rfl | rfl <;> rcases hp2 with rfl | rfl <;>
    simp only [beq_self_eq_true, Bool.not_false, Bool.and_true, if_true, Int.add_zero,
      show ((0:Nat) == 1) = false from rfl, show ((1:Nat) == 0) = false from rfl,
      show (1 - 0 : Nat) = 1 from rfl, show (1 - 1 : Nat) = 0 from rfl, Bool.false_eq_true, if_false]
  · exact ⟨core_same ct fr 0 d1 d2 _ _ true hct hfr (Or.inl rfl) hd1 hd2,
      core_same ct fr 0 d1 d2 _ _ false hct hfr (Or.inl rfl) hd1 hd2⟩
  · exact ⟨core_diff ct fr 0 1 d1 d2 _ _ true hct hfr (Or.inl ⟨rfl, rfl⟩) hd1 hd2,
      core_diff ct fr 0 1 d1 d2 _ _ false hct hfr (Or.inl ⟨rfl, rfl⟩) hd1 hd2⟩
  · exact ⟨core_diff ct fr 1 0 d1 d2 _ _ true hct hfr (Or.inr ⟨rfl, rfl⟩) hd1 hd2,
      core_diff ct fr 1 0 d1 d2 _ _ false hct hfr (Or.inr ⟨rfl, rfl⟩) hd1 hd2⟩
  · exact ⟨core_same ct fr 1 d1 d2 _ _ true hct hfr (Or.inr rfl) hd1 hd2,
      core_same ct fr 1 d1 d2 _ _ false hct hfr (Or.inr rfl) hd1 hd2⟩

/-! ### EvenOdd -/

theorem eo_norm (c : Int) (hc : c = 1 ∨ c = -1) :
    decide (normCount 0 c = 0) = false ∧ decide (normCount 0 c = 1) = true := by
  rcases hc with rfl | rfl <;> decide

theorem fl_EO_succ (N : Int) : fl 0 ((N + 1) % 2) = !fl 0 (N % 2) := by
  simp [fl, normCount, C_Positive, C_Negative]
  have h : N % 2 = 0 ∨ N % 2 = 1 := by omega
  rcases h with h | h
  · have : (N + 1) % 2 = 1 := by omega
    simp [h, this]
  · have : (N + 1) % 2 = 0 := by omega
    simp [h, this]

theorem bool_EO_same (ct p : Nat) (hct : ct = 1 ∨ ct = 2 ∨ ct = 3 ∨ ct = 4) (hp : p = 0 ∨ p = 1) :
    ∀ (v first : Bool),
    hotB ct p p false true false true v v (true && gB ct p v) (true && gB ct p v) first =
      if first then (true && gB ct p v) else (true && gB ct p v) := by
  rcases hct with rfl | rfl | rfl | rfl <;> rcases hp with rfl | rfl <;> decide

theorem bool_EO_diff (ct p1 p2 : Nat) (hct : ct = 1 ∨ ct = 2 ∨ ct = 3 ∨ ct = 4)
    (hp : (p1 = 0 ∧ p2 = 1) ∨ (p1 = 1 ∧ p2 = 0)) :
    ∀ (x y first : Bool),
    hotB ct p1 p2 false true false true (!y) x (true && gB ct p1 y) (true && gB ct p2 (!x)) first =
      if first then (true && gB ct p1 (!y)) else (true && gB ct p2 x) := by
  rcases hct with rfl | rfl | rfl | rfl <;> rcases hp with ⟨rfl, rfl⟩ | ⟨rfl, rfl⟩ <;> decide

theorem core_EO_same (ct p : Nat) (c1 c2 c1' c2' V : Int) (first : Bool)
    (hct : ct = 1 ∨ ct = 2 ∨ ct = 3 ∨ ct = 4) (hp : p = 0 ∨ p = 1)
    (h1 : c1 = 1 ∨ c1 = -1) (h2 : c2 = 1 ∨ c2 = -1) (h1' : c1' = 1 ∨ c1' = -1) (h2' : c2' = 1 ∨ c2' = -1) :
    hotCore ct 0 p p c1' V c2' V (contribB ct 0 p c1 V) (contribB ct 0 p c2 V) first =
      if first then contribB ct 0 p c1' V else contribB ct 0 p c2' V := by
  rw [feat_hot]
  rw [feat_contrib ct 0 p c1 V (by omega) (fun _ => h1), feat_contrib ct 0 p c2 V (by omega) (fun _ => h2),
    feat_contrib ct 0 p c1' V (by omega) (fun _ => h1'), feat_contrib ct 0 p c2' V (by omega) (fun _ => h2')]
  simp only [(eo_norm _ h1).2, (eo_norm _ h2).2,
    (eo_norm _ h1').1, (eo_norm _ h1').2, (eo_norm _ h2').1, (eo_norm _ h2').2]
  exact bool_EO_same ct p hct hp _ _

theorem core_EO_diff (ct p1 p2 : Nat) (c1 c2 c1' c2' X Y : Int) (first : Bool)
    (hct : ct = 1 ∨ ct = 2 ∨ ct = 3 ∨ ct = 4) (hp : (p1 = 0 ∧ p2 = 1) ∨ (p1 = 1 ∧ p2 = 0))
    (h1 : c1 = 1 ∨ c1 = -1) (h2 : c2 = 1 ∨ c2 = -1) (h1' : c1' = 1 ∨ c1' = -1) (h2' : c2' = 1 ∨ c2' = -1) :
    hotCore ct 0 p1 p2 c1' ((Y + 1) % 2) c2' (X % 2)
      (contribB ct 0 p1 c1 (Y % 2)) (contribB ct 0 p2 c2 ((X + 1) % 2)) first =
      if first then contribB ct 0 p1 c1' ((Y + 1) % 2) else contribB ct 0 p2 c2' (X % 2) := by
  rw [feat_hot]
  rw [feat_contrib ct 0 p1 c1 _ (by omega) (fun _ => h1), feat_contrib ct 0 p2 c2 _ (by omega) (fun _ => h2),
    feat_contrib ct 0 p1 c1' _ (by omega) (fun _ => h1'), feat_contrib ct 0 p2 c2' _ (by omega) (fun _ => h2')]
  simp only [(eo_norm _ h1).2, (eo_norm _ h2).2,
    (eo_norm _ h1').1, (eo_norm _ h1').2, (eo_norm _ h2').1, (eo_norm _ h2').2, fl_EO_succ]
  exact bool_EO_diff ct p1 p2 hct hp _ _ _

theorem main_EO (ct : Nat) (pre : List Active) (e1 e2 : Active)
    (front1 same : Bool)
    (hct : ct = 1 ∨ ct = 2 ∨ ct = 3 ∨ ct = 4)
    (h1w : WF e1) (h2w : WF e2)
    (h1c : isOpen e1 = false) (h2c : isOpen e2 = false)
    (h1 : EdgeOK 0 pre e1) (h2 : EdgeOK 0 (pre ++ [e1]) e2) :
    let r := intersectDecide ct 0 e1 e2
      (clipperBase_isContributingClosed (mkEng ct 0) e1)
      (clipperBase_isContributingClosed (mkEng ct 0) e2) front1 same
    r.2.2.2.1 = clipperBase_isContributingClosed (mkEng ct 0) r.1 ∧
    r.2.2.2.2 = clipperBase_isContributingClosed (mkEng ct 0) r.2.1 := by
  have hC := intersectWind_correct 0 pre e1 e2 h1w h2w h1c h2c h1 h2
  have hF := ix_frame 0 e1 e2
  simp only [intersectDecide_eq, decideCore_fst, decideCore_snd, decideCore_hot1, decideCore_hot2,
    contrib_eq _ _ _ hct (Nat.zero_le 3)]
  generalize intersectWind 0 e1 e2 = r at hC hF ⊢
  obtain ⟨⟨d1, c1', k1', lm1'⟩, ⟨d2, c2', k2', lm2'⟩⟩ := r
  obtain ⟨d1o, c1, k1, ⟨p1, o1⟩⟩ := e1
  obtain ⟨d2o, c2, k2, ⟨p2, o2⟩⟩ := e2
  simp only at hF
  obtain ⟨rfl, rfl, rfl, rfl⟩ := hF
  simp only [WF, getPolyType_eq, isOpen_eq] at h1w h2w h1c h2c
  subst h1c h2c
  obtain ⟨hd1, hp1⟩ := h1w
  obtain ⟨hd2, hp2⟩ := h2w
  simp only [edgeOK_EO, countClosed_append, countClosed_single, isClosedOf, getPolyType_eq,
      isOpen_eq] at h1 h2 hC
  obtain ⟨h1a, h1b⟩ := h1
  obtain ⟨h2a, h2b⟩ := h2
  obtain ⟨⟨h3a, h3b⟩, h4a, h4b⟩ := hC
  subst h1b h2b h3b h4b
  rcases hp1 with rfl | rfl <;> rcases hp2 with rfl | rfl <;>
    simp only [beq_self_eq_true, Bool.not_false, Bool.and_true, if_true, Nat.add_zero,
      show ((0:Nat) == 1) = false from rfl, show ((1:Nat) == 0) = false from rfl,
      show (1 - 0 : Nat) = 1 from rfl, show (1 - 1 : Nat) = 0 from rfl, Bool.false_eq_true, if_false,
      Int.natCast_add, Int.natCast_one]
  · exact ⟨core_EO_same ct 0 c1 c2 c1' c2' _ true hct (Or.inl rfl) h1a h2a h4a h3a,
      core_EO_same ct 0 c1 c2 c1' c2' _ false hct (Or.inl rfl) h1a h2a h4a h3a⟩
  · exact ⟨core_EO_diff ct 0 1 c1 c2 c1' c2' _ _ true hct (Or.inl ⟨rfl, rfl⟩) h1a h2a h4a h3a,
      core_EO_diff ct 0 1 c1 c2 c1' c2' _ _ false hct (Or.inl ⟨rfl, rfl⟩) h1a h2a h4a h3a⟩
  · exact ⟨core_EO_diff ct 1 0 c1 c2 c1' c2' _ _ true hct (Or.inr ⟨rfl, rfl⟩) h1a h2a h4a h3a,
      core_EO_diff ct 1 0 c1 c2 c1' c2' _ _ false hct (Or.inr ⟨rfl, rfl⟩) h1a h2a h4a h3a⟩
  · exact ⟨core_EO_same ct 1 c1 c2 c1' c2' _ true hct (Or.inr rfl) h1a h2a h4a h3a,
      core_EO_same ct 1 c1 c2 c1' c2' _ false hct (Or.inr rfl) h1a h2a h4a h3a⟩

theorem intersect_keeps_hot_iff_contributing (ct fr : Nat) (pre : List Active) (e1 e2 : Active)
    (front1 same : Bool)
    (hct : ct = 1 ∨ ct = 2 ∨ ct = 3 ∨ ct = 4) (hfr : fr ≤ 3)
    (h1w : WF e1) (h2w : WF e2)
    (h1c : isOpen e1 = false) (h2c : isOpen e2 = false)
    (h1 : EdgeOK fr pre e1) (h2 : EdgeOK fr (pre ++ [e1]) e2) :
    let r := intersectDecide ct fr e1 e2
      (clipperBase_isContributingClosed (mkEng ct fr) e1)
      (clipperBase_isContributingClosed (mkEng ct fr) e2) front1 same
    r.2.2.2.1 = clipperBase_isContributingClosed (mkEng ct fr) r.1 ∧
    r.2.2.2.2 = clipperBase_isContributingClosed (mkEng ct fr) r.2.1 := by
  by_cases hfr0 : fr = 0
  · subst hfr0
    exact main_EO ct pre e1 e2 front1 same hct h1w h2w h1c h2c h1 h2
  · exact main_nonEO ct fr pre e1 e2 front1 same hct (by omega) h1w h2w h1c h2c h1 h2

end Proofs.WindIx
