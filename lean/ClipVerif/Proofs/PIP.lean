import ClipVerif.Proofs.C14
import ClipVerif.Proofs.C17
import ClipVerif.Model.PIP
import ClipVerif.Model.Conv
/-
Correctness of the hand model of `PointInPolygon` (`Model.pointInPolygon`) against the
specification layer (`Spec.onPath`, `Spec.wind`).
-/
namespace Proofs.PIP
open Gen Model

/-! ### Part A: the index loop is a walk over the rotated vertex list -/

def stepVal (pt prev curr : Point64) (above : Bool) (val : Nat) : Option Nat :=
  if pt.X < curr.X ∧ pt.X < prev.X then some val
  else if pt.X > prev.X ∧ pt.X > curr.X then some (1 - val)
  else
    let d := CrossProduct prev curr pt
    if d = 0 then none
    else if (decide (d < 0)) == above then some (1 - val) else some val

def walk (pt : Point64) : Point64 → Bool → Nat → List Point64 → Option (Bool × Nat)
  | _, above, val, [] => some (above, val)
  | prev, above, val, c :: l =>
    if (if above then c.Y < pt.Y else c.Y > pt.Y) then walk pt c above val l
    else if c.Y = pt.Y then
      if c.X = pt.X ∨ (c.Y = prev.Y ∧ ((pt.X < prev.X) != (pt.X < c.X))) then none
      else walk pt c above val l
    else match stepVal pt prev c above val with
      | none => none
      | some v => walk pt c (!above) v l

theorem drop_cons (L : List Point64) (i : Nat) (h : i < L.length) :
    L.drop i = L[i]! :: L.drop (i + 1) := by
  rw [List.drop_eq_getElem_cons h]
  simp [h]

theorem skip_spec (L : List Point64) (pt : Point64) (a : Bool) (e : Nat) (he : e ≤ L.length) (i : Nat) (hi : i ≤ e) :
    i ≤ pipSkip L.toArray pt.Y a e i ∧ pipSkip L.toArray pt.Y a e i ≤ e ∧
    (pipSkip L.toArray pt.Y a e i < e →
      ¬ (if a then L[pipSkip L.toArray pt.Y a e i]!.Y < pt.Y else L[pipSkip L.toArray pt.Y a e i]!.Y > pt.Y)) ∧
    ∀ prev v, walk pt prev a v (L.drop i) =
      walk pt (if pipSkip L.toArray pt.Y a e i = i then prev else L[pipSkip L.toArray pt.Y a e i - 1]!) a v
        (L.drop (pipSkip L.toArray pt.Y a e i)) := by
  fun_induction pipSkip L.toArray pt.Y a e i with
  | case1 i h hc ih =>
    obtain ⟨h1, h2, h3, h4⟩ := ih (by omega)
    generalize pipSkip L.toArray pt.Y a e (i + 1) = j at *
    refine ⟨by omega, h2, h3, ?_⟩
    intro prev v
    have hc' : (if a = true then L[i]!.Y < pt.Y else L[i]!.Y > pt.Y) := by
      cases a <;> simpa using hc
    rw [drop_cons L i (by omega), walk, if_pos hc', h4]
    have : j ≠ i := by omega
    rw [if_neg this]
    by_cases hj : j = i + 1
    · subst hj; simp
    · rw [if_neg hj]
  | case2 i h hc =>
    refine ⟨by omega, hi, ?_, by simp⟩
    intro _
    cases a <;> simpa using hc
  | case3 i h => exact ⟨by omega, hi, by omega, by simp⟩

theorem take_drop_cons (L : List Point64) (i e : Nat) (h : i < e) (he : e ≤ L.length) :
    (L.take e).drop i = L[i]! :: (L.take e).drop (i + 1) := by
  rw [List.drop_eq_getElem_cons (by simp; omega)]
  simp [show i < L.length by omega]

theorem skip_stay (L : List Point64) (pt : Point64) (a : Bool) (e i : Nat) (h : L[i]!.Y = pt.Y) :
    pipSkip L.toArray pt.Y a e i = i := by
  unfold pipSkip
  split
  · have : ¬ (if a = true then L.toArray[i]!.Y < pt.Y else L.toArray[i]!.Y > pt.Y) := by
      simp only [List.getElem!_toArray, h]
      cases a <;> simp [Int64.lt_irrefl]
    rw [if_neg this]
  · rfl

/-- processing of vertex `j` (where the skip loop stopped before `end`) -/
def proc (pt : Point64) (L : List Point64) (start e : Nat) (a : Bool) (v : Nat) (j : Nat) : PipStep :=
  let curr := L[j]!
  let prev := if j > 0 then L[j-1]! else L[L.length-1]!
  if curr.Y = pt.Y then
    if curr.X = pt.X ∨ (curr.Y = prev.Y ∧ ((pt.X < prev.X) != (pt.X < curr.X))) then .done 0
    else if j + 1 = start then .brk { i := j + 1, «end» := e, isAbove := a, val := v }
    else .cont { i := j + 1, «end» := e, isAbove := a, val := v }
  else
    match stepVal pt prev curr a v with
    | none => .done 0
    | some v' => .cont { i := j + 1, «end» := e, isAbove := !a, val := v' }

theorem pipIter_ne (pt : Point64) (L : List Point64) (start i e : Nat) (a : Bool) (v : Nat) (h : i ≠ e) :
    pipIter pt L.toArray start { i := i, «end» := e, isAbove := a, val := v } =
      if pipSkip L.toArray pt.Y a e i = e then
        .cont { i := pipSkip L.toArray pt.Y a e i, «end» := e, isAbove := a, val := v }
      else proc pt L start e a v (pipSkip L.toArray pt.Y a e i) := by
  simp only [pipIter, h, false_and, if_false, List.getElem!_toArray, List.size_toArray]
  rfl

/-- result of the second phase (indices `0 … start-1`, all on the line) -/
def phase2res (pt : Point64) (L : List Point64) (start i : Nat) (a : Bool) (v : Nat) : Sum Nat PipSt :=
  match walk pt (if i > 0 then L[i-1]! else L[L.length-1]!) a v ((L.take start).drop i) with
  | none => .inl 0
  | some (a', v') => .inr { i := start, «end» := start, isAbove := a', val := v' }

theorem loop2 (L : List Point64) (pt : Point64) (start : Nat) (hs : start ≤ L.length)
    (hon : ∀ j, j < start → L[j]!.Y = pt.Y) :
    ∀ f i a v, i < start → start - i ≤ f →
      pipLoop pt L.toArray start f { i := i, «end» := start, isAbove := a, val := v } =
        phase2res pt L start i a v := by
  intro f
  induction f with
  | zero => intro i a v h1 h2; omega
  | succ f ih =>
    intro i a v h1 h2
    have hY := hon i h1
    unfold phase2res
    rw [take_drop_cons L i start h1 hs, walk]
    have hns : ¬ (if a = true then L[i]!.Y < pt.Y else L[i]!.Y > pt.Y) := by
      rw [hY]; cases a <;> simp [Int64.lt_irrefl]
    rw [if_neg hns, if_pos hY]
    rw [pipLoop, pipIter_ne pt L start i start a v (by omega), skip_stay L pt a start i hY,
      if_neg (by omega), proc]
    simp only [hY, if_true]
    generalize (if i > 0 then L[i-1]! else L[L.length-1]!) = prev
    split_ifs with hC hlast
    · rfl
    · simp only [hlast, List.drop_take_self, walk]
    · simp only []
      rw [ih (i+1) a v (by omega) (by omega)]
      unfold phase2res
      simp

theorem pipIter_end0 (pt : Point64) (L : List Point64) (e : Nat) (a : Bool) (v : Nat) :
    pipIter pt L.toArray 0 { i := e, «end» := e, isAbove := a, val := v } =
      .brk { i := e, «end» := e, isAbove := a, val := v } := by
  simp [pipIter]

theorem pipIter_wrap (pt : Point64) (L : List Point64) (start e : Nat) (a : Bool) (v : Nat)
    (hs : start ≠ 0) (he : e ≠ 0) :
    pipIter pt L.toArray start { i := e, «end» := e, isAbove := a, val := v } =
      pipIter pt L.toArray start { i := 0, «end» := start, isAbove := a, val := v } := by
  have : ¬ (0 = start) := by omega
  simp [pipIter, hs, he, this]

def fin1 (pt : Point64) (L : List Point64) (start : Nat) : Option (Bool × Nat) → Sum Nat PipSt
  | none => .inl 0
  | some (a', v') =>
    if start = 0 then .inr { i := L.length, «end» := L.length, isAbove := a', val := v' }
    else phase2res pt L start 0 a' v'

def phase1res (pt : Point64) (L : List Point64) (start i : Nat) (a : Bool) (v : Nat) : Sum Nat PipSt :=
  fin1 pt L start (walk pt L[i-1]! a v (L.drop i))

theorem loop1 (L : List Point64) (pt : Point64) (start : Nat) (hs : start < L.length)
    (hon : ∀ j, j < start → L[j]!.Y = pt.Y) :
    ∀ f i a v, start < i → i ≤ L.length → (L.length - i) + start + 2 ≤ f →
      pipLoop pt L.toArray start f { i := i, «end» := L.length, isAbove := a, val := v } =
        phase1res pt L start i a v := by
  intro f
  induction f with
  | zero => intro i a v h1 h2 h3; omega
  | succ f ih =>
    intro i a v h1 h2 h3
    by_cases hin : i = L.length
    · subst hin
      unfold phase1res
      simp only [List.drop_length, walk, fin1]
      by_cases h0 : start = 0
      · subst h0
        rw [pipLoop, pipIter_end0]
        simp
      · rw [if_neg h0, ← loop2 L pt start (by omega) hon (f+1) 0 a v (by omega) (by omega)]
        rw [pipLoop, pipLoop, pipIter_wrap pt L start L.length a v h0 (by omega)]
    · obtain ⟨k1, k2, k3, k4⟩ := skip_spec L pt a L.length (Nat.le_refl _) i h2
      rw [pipLoop, pipIter_ne pt L start i L.length a v hin]
      unfold phase1res
      rw [k4]
      generalize pipSkip L.toArray pt.Y a L.length i = j at *
      by_cases hj : j = L.length
      · rw [if_pos hj]
        simp only []
        rw [ih j a v (by omega) (by omega) (by omega)]
        unfold phase1res
        subst hj
        simp only [List.drop_length, walk]
      · rw [if_neg hj]
        have hprev : (if j = i then L[i-1]! else L[j-1]!) = L[j-1]! := by
          split
          · next h => rw [h]
          · rfl
        have hj0 : j > 0 := by omega
        have hnext : ∀ a' v', fin1 pt L start (walk pt L[j]! a' v' (L.drop (j+1))) =
            phase1res pt L start (j+1) a' v' := fun _ _ => rfl
        rw [hprev, drop_cons L j (by omega), walk, if_neg (k3 (by omega)), proc]
        simp only [hj0, if_true]
        generalize L[j-1]! = prev
        split_ifs with hY hC hst
        · rfl
        · omega
        · simp only []
          rw [ih (j+1) a v (by omega) (by omega) (by omega), hnext]
        · cases hsv : stepVal pt prev L[j]! a v with
          | none => rfl
          | some v' =>
            simp only []
            rw [ih (j+1) (!a) v' (by omega) (by omega) (by omega), hnext]

theorem walk_append (pt : Point64) (l2 : List Point64) : ∀ (l1 : List Point64) (prev : Point64) (a : Bool) (v : Nat),
    walk pt prev a v (l1 ++ l2) =
      match walk pt prev a v l1 with
      | none => none
      | some (a', v') => walk pt (l1.getLastD prev) a' v' l2 := by
  intro l1
  induction l1 with
  | nil => intro prev a v; simp [walk]
  | cons c l1 ih =>
    intro prev a v
    simp only [List.cons_append, walk, List.getLastD_cons]
    by_cases hS : (if a = true then c.Y < pt.Y else c.Y > pt.Y)
    · rw [if_pos hS, if_pos hS, ih]
    · rw [if_neg hS, if_neg hS]
      split_ifs
      · rfl
      · rw [ih]
      · cases stepVal pt prev c a v with
        | none => rfl
        | some v' => simp only []; rw [ih]

theorem skipEq_spec (L : List Point64) (y : Int64) (i : Nat) :
    i ≤ pointInPolygon.pipSkipEq L.toArray y i ∧
    (i ≤ L.length → pointInPolygon.pipSkipEq L.toArray y i ≤ L.length) ∧
    (∀ j, i ≤ j → j < pointInPolygon.pipSkipEq L.toArray y i → L[j]!.Y = y) ∧
    (pointInPolygon.pipSkipEq L.toArray y i < L.length → L[pointInPolygon.pipSkipEq L.toArray y i]!.Y ≠ y) := by
  fun_induction pointInPolygon.pipSkipEq L.toArray y i with
  | case1 i h hc ih =>
    obtain ⟨h1, h2, h3, h4⟩ := ih
    refine ⟨by omega, fun _ => h2 (by simp at h; omega), ?_, h4⟩
    intro j hj1 hj2
    by_cases hji : j = i
    · subst hji; simpa using hc
    · exact h3 j (by omega) hj2
  | case2 i h hc =>
    refine ⟨by omega, fun h => h, fun j h1 h2 => by omega, fun _ => by simpa using hc⟩
  | case3 i h =>
    refine ⟨by omega, fun h => h, fun j h1 h2 => by omega, fun h' => ?_⟩
    simp at h; omega

theorem lastD_drop (L : List Point64) (start : Nat) (h : start < L.length) :
    (L.drop (start+1)).getLastD L[start]! = L[L.length-1]! := by
  have : (L.drop (start+1)).getLastD L[start]! = (L.drop start).getLastD default := by
    rw [drop_cons L start h, List.getLastD_cons]
  rw [this]
  have e : start + (L.length - start - 1) = L.length - 1 := by omega
  simp [List.getLastD_eq_getLast?, List.getLast?_eq_getElem?, h, e]
  rw [List.getElem?_eq_getElem (by omega)]; rfl

theorem lastD_rot (L : List Point64) (start : Nat) (h : start < L.length) :
    (L.drop (start+1) ++ L.take start).getLastD L[start]! =
      if start = 0 then L[L.length-1]! else L[start-1]! := by
  by_cases h0 : start = 0
  · rw [if_pos h0]
    subst h0
    simpa using lastD_drop L 0 h
  · rw [if_neg h0]
    have h1 : min start L.length = start := by omega
    have h2 : start - 1 < L.length := by omega
    have h3 : start - 1 < start := by omega
    simp only [List.getLastD_eq_getLast?, List.getLast?_eq_getElem?, List.length_append,
      List.length_drop, List.length_take, h1]
    rw [List.getElem?_append_right (by simp; omega)]
    have e : L.length - (start + 1) + start - 1 - (List.drop (start + 1) L).length = start - 1 := by
      simp; omega
    rw [e]
    simp [h2, h3]

/-- the evaluation after the loop -/
def closing (pt R0 last : Point64) (a0 : Bool) : Option (Bool × Nat) → Nat
  | none => 0
  | some (a, v) =>
    if a = a0 then (if v = 0 then 2 else 1)
    else
      let d := CrossProduct last R0 pt
      if d = 0 then 0
      else if (if (decide (d < 0)) == a then 1 - v else v) = 0 then 2 else 1

theorem pip_eq_walk (L : List Point64) (pt : Point64) (h3 : 3 ≤ L.length) (hflat : ∃ q ∈ L, q.Y ≠ pt.Y) :
    ∃ start, start < L.length ∧ (∀ j, j < start → L[j]!.Y = pt.Y) ∧ L[start]!.Y ≠ pt.Y ∧
      pointInPolygon pt L.toArray =
        closing pt L[start]! ((L.drop (start+1) ++ L.take start).getLastD L[start]!) (decide (L[start]!.Y < pt.Y))
          (walk pt L[start]! (decide (L[start]!.Y < pt.Y)) 0 (L.drop (start+1) ++ L.take start)) := by
  obtain ⟨k1, k2, k3, k4⟩ := skipEq_spec L pt.Y 0
  have k2 := k2 (by omega)
  have hlt : pointInPolygon.pipSkipEq L.toArray pt.Y 0 < L.length := by
    rcases Nat.lt_or_ge (pointInPolygon.pipSkipEq L.toArray pt.Y 0) L.length with h | h
    · exact h
    · exfalso
      obtain ⟨q, hq, hqy⟩ := hflat
      obtain ⟨j, hj, rfl⟩ := List.getElem_of_mem hq
      apply hqy
      have := k3 j (by omega) (by omega)
      simpa [hj] using this
  refine ⟨pointInPolygon.pipSkipEq L.toArray pt.Y 0, hlt, fun j hj => k3 j (by omega) hj, k4 hlt, ?_⟩
  unfold pointInPolygon
  generalize pointInPolygon.pipSkipEq L.toArray pt.Y 0 = start at *
  simp only [List.size_toArray, List.getElem!_toArray]
  rw [if_neg (by omega), if_neg (by omega)]
  rw [loop1 L pt start hlt (fun j hj => k3 j (by omega) hj) _ (start+1) _ 0 (by omega) (by omega) (by omega)]
  unfold phase1res
  rw [walk_append]
  simp only [Nat.add_sub_cancel]
  rw [lastD_drop L start hlt, lastD_rot L start hlt]
  cases hw1 : walk pt L[start]! (decide (L[start]!.Y < pt.Y)) 0 (List.drop (start + 1) L) with
  | none => rfl
  | some av =>
    obtain ⟨a', v'⟩ := av
    simp only [fin1]
    by_cases h0 : start = 0
    · subst h0
      simp [walk, closing]
    · rw [if_neg h0, if_neg h0]
      unfold phase2res
      simp only [Nat.lt_irrefl, if_false, List.drop_zero]
      cases hw2 : walk pt L[L.length - 1]! a' v' (List.take start L) with
      | none => rfl
      | some av2 =>
        obtain ⟨a2, v2⟩ := av2
        have : ¬ start = L.length := by omega
        simp [closing, h0, this]

/-! ### Part B: integer geometry -/
open Spec Proofs.C17

def crossI (a b p : IPt) : Int := (b.x - a.x) * (p.y - a.y) - (p.x - a.x) * (b.y - a.y)

/-- right-crossing number (= `Spec.edgeW`) -/
def Rw (p a b : IPt) : Int :=
  if a.y ≤ p.y ∧ p.y < b.y ∧ 0 < crossI a b p then 1
  else if b.y ≤ p.y ∧ p.y < a.y ∧ crossI a b p < 0 then -1 else 0

/-- left-crossing number -/
def Lw (p a b : IPt) : Int :=
  if a.y ≤ p.y ∧ p.y < b.y ∧ crossI a b p < 0 then 1
  else if b.y ≤ p.y ∧ p.y < a.y ∧ 0 < crossI a b p then -1 else 0

def onSegI (a b p : IPt) : Prop :=
  crossI a b p = 0 ∧ (a.x ≤ p.x ∨ b.x ≤ p.x) ∧ (p.x ≤ a.x ∨ p.x ≤ b.x) ∧
    (a.y ≤ p.y ∨ b.y ≤ p.y) ∧ (p.y ≤ a.y ∨ p.y ≤ b.y)

def qof (p : IPt) : QPt := ⟨(p.x : Rat), (p.y : Rat)⟩

theorem cross_cast (a b p : IPt) : Spec.cross a b (qof p) = ((crossI a b p : Int) : Rat) := by
  simp only [Spec.cross, crossI, qof]
  push_cast
  ring

theorem edgeW_cast (a b p : IPt) : edgeW a b (qof p) = Rw p a b := by
  unfold edgeW Rw
  rw [cross_cast]
  simp only [qof, Int.cast_le, Int.cast_lt, Int.cast_pos, Int.cast_lt_zero]

theorem onSeg_cast (a b p : IPt) : onSeg a b (qof p) = true ↔ onSegI a b p := by
  unfold onSeg onSegI
  rw [cross_cast]
  simp only [qof, Bool.and_eq_true, beq_iff_eq, decide_eq_true_eq, min_le_iff, le_max_iff,
    Int.cast_le, Int.cast_eq_zero, and_assoc]

def onChain (p : IPt) : List IPt → Prop
  | [] => False
  | [_] => False
  | a :: b :: rest => onSegI a b p ∨ onChain p (b :: rest)

theorem any_zip_onChain (p : IPt) (rest : List IPt) : ∀ (a z : IPt),
    (((a :: rest).zip (rest ++ [z])).any (fun e => onSeg e.1 e.2 (qof p))) = true ↔
      onChain p (a :: rest ++ [z]) := by
  induction rest with
  | nil => intro a z; simp [onChain, onSeg_cast]
  | cons b rest ih =>
    intro a z
    have := ih b z
    simp only [List.cons_append, List.zip_cons_cons, List.any_cons, Bool.or_eq_true, onChain,
      onSeg_cast] at this ⊢
    rw [this]

theorem onPath_cons (p a : IPt) (rest : List IPt) :
    onPath (a :: rest) (qof p) = true ↔ onChain p (a :: rest ++ [a]) := by
  unfold onPath edgesOf
  exact any_zip_onChain p rest a a

theorem onChain_append (p m : IPt) (l2 : List IPt) : ∀ (l1 : List IPt),
    onChain p (l1 ++ m :: l2) ↔ (onChain p (l1 ++ [m]) ∨ onChain p (m :: l2)) := by
  intro l1
  induction l1 with
  | nil => simp [onChain]
  | cons x l1 ih =>
    cases l1 with
    | nil => simp [onChain]
    | cons y l1 =>
      simp only [List.cons_append, onChain] at ih ⊢
      rw [ih, or_assoc]

theorem onPath_append_comm (p : IPt) (l1 l2 : List IPt) :
    onPath (l1 ++ l2) (qof p) = true ↔ onPath (l2 ++ l1) (qof p) = true := by
  cases l1 with
  | nil => simp
  | cons a l1 =>
    cases l2 with
    | nil => simp
    | cons b l2 =>
      have e1 : onPath (a :: l1 ++ b :: l2) (qof p) = true ↔ onChain p ((a :: l1) ++ b :: (l2 ++ [a])) := by
        rw [List.cons_append, onPath_cons]; simp
      have e2 : onPath (b :: l2 ++ a :: l1) (qof p) = true ↔ onChain p ((b :: l2) ++ a :: (l1 ++ [b])) := by
        rw [List.cons_append, onPath_cons]; simp
      rw [e1, e2, onChain_append p b (l2 ++ [a]) (a :: l1), onChain_append p a (l1 ++ [b]) (b :: l2)]
      simp only [List.cons_append]
      exact or_comm

theorem prod_sign (u w : Int) :
    (0 < u → 0 < w → 0 < u * w) ∧ (0 < u → w < 0 → u * w < 0) ∧ (u < 0 → 0 < w → u * w < 0) ∧
    (u < 0 → w < 0 → 0 < u * w) ∧ (u = 0 → u * w = 0) ∧ (w = 0 → u * w = 0) := by
  refine ⟨fun a b => Int.mul_pos a b, fun a b => Int.mul_neg_of_pos_of_neg a b,
    fun a b => Int.mul_neg_of_neg_of_pos a b, fun a b => Int.mul_pos_of_neg_of_neg a b,
    fun a => by simp [a], fun a => by simp [a]⟩

/-- the two forms of the cross product used below -/
theorem crossI_alt (a b p : IPt) :
    crossI a b p = (b.x - p.x) * (p.y - a.y) + (a.x - p.x) * (b.y - p.y) := by
  unfold crossI; ring

def prevInv (p : IPt) (above : Bool) (q : IPt) : Prop :=
  (if above then q.y ≤ p.y else p.y ≤ q.y) ∧ (q.y = p.y → q.x ≠ p.x)

def pend (p : IPt) (above : Bool) (q : IPt) : Int :=
  if above = false ∧ q.y = p.y ∧ q.x < p.x then 1 else 0

theorem step1 (p q c : IPt) (a : Bool) (hq : prevInv p a q)
    (hc : if a then c.y < p.y else p.y < c.y) :
    ¬ onSegI q c p ∧ prevInv p a c ∧ (pend p a c - pend p a q - Lw p q c) % 2 = 0 := by
  obtain ⟨hq1, hq2⟩ := hq
  have h1 := (prod_sign (c.x - q.x) (p.y - q.y)).2.2.2.2.2
  have h2 := prod_sign (p.x - q.x) (c.y - q.y)
  unfold onSegI prevInv pend Lw crossI
  generalize (c.x - q.x) * (p.y - q.y) = m1 at *
  generalize (p.x - q.x) * (c.y - q.y) = m2 at *
  cases a
  · simp only [Bool.false_eq_true, if_false, true_and] at *
    refine ⟨by omega, ⟨by omega, by omega⟩, ?_⟩
    split_ifs <;> omega
  · simp only [if_true, Bool.true_eq_false, false_and, if_false] at *
    refine ⟨by omega, ⟨by omega, by omega⟩, ?_⟩
    split_ifs <;> omega

theorem step2 (p q c : IPt) (a : Bool) (hq : prevInv p a q) (hc : c.y = p.y) :
    ((c.x = p.x ∨ (c.y = q.y ∧ ¬ (p.x < q.x ↔ p.x < c.x))) → onSegI q c p) ∧
    (¬ (c.x = p.x ∨ (c.y = q.y ∧ ¬ (p.x < q.x ↔ p.x < c.x))) →
      ¬ onSegI q c p ∧ prevInv p a c ∧ (pend p a c - pend p a q - Lw p q c) % 2 = 0) := by
  obtain ⟨hq1, hq2⟩ := hq
  have hd : crossI q c p = (c.x - p.x) * (p.y - q.y) := by unfold crossI; rw [hc]; ring
  have h1 := prod_sign (c.x - p.x) (p.y - q.y)
  unfold onSegI prevInv pend Lw
  rw [hd]
  generalize (c.x - p.x) * (p.y - q.y) = m at *
  cases a
  · simp only [Bool.false_eq_true, if_false, true_and] at *
    refine ⟨by omega, fun hC => ⟨by omega, ⟨by omega, by omega⟩, ?_⟩⟩
    split_ifs <;> omega
  · simp only [if_true, Bool.true_eq_false, false_and, if_false] at *
    refine ⟨by omega, fun hC => ⟨by omega, ⟨by omega, by omega⟩, ?_⟩⟩
    split_ifs <;> omega

theorem step3 (p q c : IPt) (a : Bool) (hq : prevInv p a q)
    (hc : if a then p.y < c.y else c.y < p.y) :
    (crossI q c p = 0 → onSegI q c p) ∧
    (crossI q c p ≠ 0 → ¬ onSegI q c p ∧ prevInv p (!a) c ∧
      ((if (decide (crossI q c p < 0) == a) = true then (1:Int) else 0) + pend p (!a) c - pend p a q - Lw p q c) % 2 = 0) ∧
    (p.x < c.x ∧ p.x < q.x → crossI q c p ≠ 0 ∧ (decide (crossI q c p < 0) == a) = false) ∧
    (p.x > q.x ∧ p.x > c.x → crossI q c p ≠ 0 ∧ (decide (crossI q c p < 0) == a) = true) := by
  obtain ⟨hq1, hq2⟩ := hq
  have hd := crossI_alt q c p
  have h1 := prod_sign (c.x - p.x) (p.y - q.y)
  have h2 := prod_sign (q.x - p.x) (c.y - p.y)
  unfold onSegI prevInv pend Lw
  generalize crossI q c p = d at *
  generalize (c.x - p.x) * (p.y - q.y) = n1 at *
  generalize (q.x - p.x) * (c.y - p.y) = n2 at *
  cases a
  · simp only [Bool.false_eq_true, if_false, true_and, Bool.not_false, if_true, Bool.true_eq_false, false_and, beq_false, Bool.not_eq_eq_eq_not, Bool.not_true, decide_eq_false_iff_not, Bool.not_false, decide_eq_true_eq] at *
    refine ⟨by omega, fun hC => ⟨by omega, ⟨by omega, by omega⟩, ?_⟩, by omega, by omega⟩
    split_ifs <;> omega
  · simp only [if_true, Bool.true_eq_false, false_and, if_false, Bool.not_true, Bool.false_eq_true, true_and, beq_true, decide_eq_true_eq, decide_eq_false_iff_not] at *
    refine ⟨by omega, fun hC => ⟨by omega, ⟨by omega, by omega⟩, ?_⟩, by omega, by omega⟩
    split_ifs <;> omega

def gI (p v : IPt) : Int := if p.y < v.y then 1 else 0

theorem edge_tele (p a b : IPt) (h : ¬ onSegI a b p) : Rw p a b + Lw p a b = gI p b - gI p a := by
  have hd := crossI_alt a b p
  have h1 := prod_sign (b.x - p.x) (p.y - a.y)
  have h2 := prod_sign (a.x - p.x) (b.y - p.y)
  unfold onSegI at h
  unfold Rw Lw gI
  generalize crossI a b p = d at *
  generalize (b.x - p.x) * (p.y - a.y) = n1 at *
  generalize (a.x - p.x) * (b.y - p.y) = n2 at *
  have key : (a.y ≤ p.y ∧ p.y < b.y) ∨ (b.y ≤ p.y ∧ p.y < a.y) → d ≠ 0 := by
    intro hs h0
    apply h
    refine ⟨h0, ?_, ?_, by omega, by omega⟩
    · by_contra hx
      omega
    · by_contra hx
      omega
  clear h1 h2 hd h
  split_ifs <;> omega

theorem chain_tele (p : IPt) : ∀ (l : List IPt) (x : IPt), ¬ onChain p (x :: l) →
    chain (Rw p) (x :: l) + chain (Lw p) (x :: l) = gI p (l.getLastD x) - gI p x := by
  intro l
  induction l with
  | nil => intro x _; simp [chain]
  | cons y l ih =>
    intro x h
    simp only [onChain, not_or] at h
    have := ih y h.2
    have e := edge_tele p x y h.1
    simp only [chain, List.getLastD_cons]
    omega

theorem crossZ_eq (a b p : Point64) : crossZ a b p = crossI a.toI b.toI p.toI := by
  unfold crossZ crossI Point64.toI; ring

theorem stepVal_eq (pt prev c : Point64) (a : Bool) (v : Nat)
    (hp : pt.inRange) (hq : prev.inRange) (hc : c.inRange)
    (hinv : prevInv pt.toI a prev.toI)
    (hs : if a then pt.toI.y < c.toI.y else c.toI.y < pt.toI.y) :
    stepVal pt prev c a v =
      if crossI prev.toI c.toI pt.toI = 0 then none
      else if (decide (crossI prev.toI c.toI pt.toI < 0) == a) = true then some (1 - v) else some v := by
  obtain ⟨_, _, s3, s4⟩ := step3 pt.toI prev.toI c.toI a hinv hs
  obtain ⟨c1, c2, _⟩ := Proofs.C14.crossProduct_sign prev c pt hq hc hp
  rw [crossZ_eq] at c1 c2
  unfold stepVal
  simp only [Int64.lt_iff_toInt_lt, gt_iff_lt]
  have e1 : pt.toI.x = pt.X.toInt := rfl
  have e2 : prev.toI.x = prev.X.toInt := rfl
  have e3 : c.toI.x = c.X.toInt := rfl
  rw [e1, e2, e3] at s3 s4
  by_cases k1 : pt.X.toInt < c.X.toInt ∧ pt.X.toInt < prev.X.toInt
  · rw [if_pos k1]
    obtain ⟨z1, z2⟩ := s3 k1
    rw [if_neg z1, z2]; simp
  · rw [if_neg k1]
    by_cases k2 : prev.X.toInt < pt.X.toInt ∧ c.X.toInt < pt.X.toInt
    · rw [if_pos k2]
      obtain ⟨z1, z2⟩ := s4 k2
      rw [if_neg z1, z2]; simp
    · rw [if_neg k2]
      simp only [c1, c2]

/-- postcondition of a walk over `l` started at `prev` -/
def Post (pt prev : Point64) (a : Bool) (v : Nat) (l : List Point64) : Option (Bool × Nat) → Prop
  | none => onChain pt.toI (pathToI (prev :: l))
  | some (a', v') =>
    ¬ onChain pt.toI (pathToI (prev :: l)) ∧ v' ≤ 1 ∧ prevInv pt.toI a' (l.getLastD prev).toI ∧
    ((v' : Int) + pend pt.toI a' (l.getLastD prev).toI - v - pend pt.toI a prev.toI
      - chain (Lw pt.toI) (pathToI (prev :: l))) % 2 = 0

theorem post_comb (pt prev c : Point64) (a a2 : Bool) (v v2 : Nat) (l : List Point64)
    (hseg : ¬ onSegI prev.toI c.toI pt.toI)
    (hpar : ((v2 : Int) + pend pt.toI a2 c.toI - v - pend pt.toI a prev.toI - Lw pt.toI prev.toI c.toI) % 2 = 0)
    (r : Option (Bool × Nat)) (h : Post pt c a2 v2 l r) : Post pt prev a v (c :: l) r := by
  cases r with
  | none =>
    simp only [Post, pathToI, List.map_cons, onChain] at h ⊢
    exact Or.inr h
  | some av =>
    obtain ⟨a', v'⟩ := av
    simp only [Post, pathToI, List.map_cons, onChain, chain, List.getLastD_cons, not_or] at h ⊢
    obtain ⟨h1, h2, h3, h4⟩ := h
    refine ⟨⟨hseg, h1⟩, h2, h3, ?_⟩
    omega

theorem walk_geom (pt : Point64) (hp : pt.inRange) : ∀ (l : List Point64) (prev : Point64) (a : Bool) (v : Nat),
    prev.inRange → (∀ q ∈ l, q.inRange) → prevInv pt.toI a prev.toI → v ≤ 1 →
    Post pt prev a v l (walk pt prev a v l) := by
  intro l
  induction l with
  | nil =>
    intro prev a v _ _ hinv hv
    simp only [walk, Post, pathToI, List.map_cons, List.map_nil, onChain, not_false_eq_true, true_and,
      List.getLastD_nil, chain]
    exact ⟨hv, hinv, by omega⟩
  | cons c l ih =>
    intro prev a v hq hl hinv hv
    have hc : c.inRange := hl c (by simp)
    have hl' : ∀ q ∈ l, q.inRange := fun q hq => hl q (by simp [hq])
    have ey : ∀ q : Point64, q.toI.y = q.Y.toInt := fun _ => rfl
    have ex : ∀ q : Point64, q.toI.x = q.X.toInt := fun _ => rfl
    rw [walk]
    by_cases hS : (if a = true then c.Y < pt.Y else c.Y > pt.Y)
    · rw [if_pos hS]
      have hS' : if a = true then c.toI.y < pt.toI.y else pt.toI.y < c.toI.y := by
        cases a <;> simpa [Int64.lt_iff_toInt_lt, ey] using hS
      obtain ⟨s1, s2, s3⟩ := step1 pt.toI prev.toI c.toI a hinv hS'
      exact post_comb pt prev c a a v v l s1 (by omega) _ (ih c a v hc hl' s2 hv)
    · rw [if_neg hS]
      by_cases hY : c.Y = pt.Y
      · rw [if_pos hY]
        have hY' : c.toI.y = pt.toI.y := by rw [ey, ey, hY]
        obtain ⟨s1, s2⟩ := step2 pt.toI prev.toI c.toI a hinv hY'
        have hcond : (c.X = pt.X ∨ (c.Y = prev.Y ∧ ((pt.X < prev.X) != (pt.X < c.X)))) ↔
            (c.toI.x = pt.toI.x ∨ (c.toI.y = prev.toI.y ∧ ¬ (pt.toI.x < prev.toI.x ↔ pt.toI.x < c.toI.x))) := by
          simp only [ex, ey, ← Int64.toInt_inj, Int64.lt_iff_toInt_lt, bne_iff_ne, ne_eq, decide_eq_decide]
        by_cases hC : (c.X = pt.X ∨ (c.Y = prev.Y ∧ ((pt.X < prev.X) != (pt.X < c.X))))
        · rw [if_pos hC]
          simp only [Post, pathToI, List.map_cons, onChain]
          exact Or.inl (s1 (hcond.1 hC))
        · rw [if_neg hC]
          obtain ⟨t1, t2, t3⟩ := s2 (fun h => hC (hcond.2 h))
          exact post_comb pt prev c a a v v l t1 (by omega) _ (ih c a v hc hl' t2 hv)
      · rw [if_neg hY]
        have hS' : if a = true then pt.toI.y < c.toI.y else c.toI.y < pt.toI.y := by
          have : c.Y.toInt ≠ pt.Y.toInt := fun h => hY (Int64.toInt_inj.1 h)
          cases a <;> simp [Int64.lt_iff_toInt_lt, ey] at hS ⊢ <;> omega
        rw [stepVal_eq pt prev c a v hp hq hc hinv hS']
        obtain ⟨s1, s2, _, _⟩ := step3 pt.toI prev.toI c.toI a hinv hS'
        by_cases hd : crossI prev.toI c.toI pt.toI = 0
        · rw [if_pos hd]
          simp only [Post, pathToI, List.map_cons, onChain]
          exact Or.inl (s1 hd)
        · rw [if_neg hd]
          obtain ⟨t1, t2, t3⟩ := s2 hd
          by_cases htog : (decide (crossI prev.toI c.toI pt.toI < 0) == a) = true
          · rw [if_pos htog] at t3 ⊢
            exact post_comb pt prev c a (!a) v (1 - v) l t1 (by omega) _ (ih c (!a) (1 - v) hc hl' t2 (by omega))
          · rw [if_neg htog] at t3 ⊢
            exact post_comb pt prev c a (!a) v v l t1 (by omega) _ (ih c (!a) v hc hl' t2 hv)

theorem onChain_snoc (p z : IPt) : ∀ (l : List IPt) (x : IPt),
    onChain p (x :: l ++ [z]) ↔ (onChain p (x :: l) ∨ onSegI (l.getLastD x) z p) := by
  intro l
  induction l with
  | nil => intro x; simp [onChain]
  | cons y l ih =>
    intro x
    have := ih y
    simp only [List.cons_append, onChain, List.getLastD_cons] at this ⊢
    rw [this, or_assoc]

theorem chain_snoc (f : IPt → IPt → Int) (z : IPt) : ∀ (l : List IPt) (x : IPt),
    chain f (x :: l ++ [z]) = chain f (x :: l) + f (l.getLastD x) z := by
  intro l
  induction l with
  | nil => intro x; simp [chain]
  | cons y l ih =>
    intro x
    have := ih y
    simp only [List.cons_append, chain, List.getLastD_cons] at this ⊢
    rw [this]; omega

theorem getLastD_map (l : List Point64) (x : Point64) :
    (pathToI l).getLastD x.toI = (l.getLastD x).toI := by
  induction l generalizing x with
  | nil => rfl
  | cons y l ih => simp only [pathToI, List.map_cons, List.getLastD_cons] at ih ⊢; exact ih y

theorem wind_eq_chain (p a : IPt) (rest : List IPt) :
    wind (a :: rest) (qof p) = chain (Rw p) (a :: rest ++ [a]) := by
  rw [wind_eq_cyc, cyc_cons]
  have : (fun a b => edgeW a b (qof p)) = Rw p := by
    funext a b; exact edgeW_cast a b p
  rw [this]

theorem ring_correct (pt R0 : Point64) (rest : List Point64) (hp : pt.inRange) (hR0 : R0.inRange)
    (hrest : ∀ q ∈ rest, q.inRange) (hne : R0.Y ≠ pt.Y) :
    closing pt R0 (rest.getLastD R0) (decide (R0.Y < pt.Y)) (walk pt R0 (decide (R0.Y < pt.Y)) 0 rest) =
      if onPath (pathToI (R0 :: rest)) (qof pt.toI) then 0
      else if wind (pathToI (R0 :: rest)) (qof pt.toI) % 2 ≠ 0 then 1 else 2 := by
  have ey : ∀ q : Point64, q.toI.y = q.Y.toInt := fun _ => rfl
  have hne' : R0.toI.y ≠ pt.toI.y := fun h => hne (Int64.toInt_inj.1 h)
  have hinv0 : prevInv pt.toI (decide (R0.Y < pt.Y)) R0.toI := by
    refine ⟨?_, fun h => absurd h hne'⟩
    by_cases h : R0.Y < pt.Y
    · simp only [h, decide_true, if_true]
      rw [Int64.lt_iff_toInt_lt] at h; rw [ey, ey]; omega
    · simp only [h, decide_false, Bool.false_eq_true, if_false]
      rw [Int64.lt_iff_toInt_lt] at h; rw [ey, ey]; omega
  have hpend0 : ∀ a, pend pt.toI a R0.toI = 0 := by
    intro a; unfold pend; rw [if_neg]; intro h; exact hne' h.2.1
  have hlast : (rest.getLastD R0).inRange := by
    have : rest.getLastD R0 ∈ R0 :: rest := List.getLastD_mem_cons
    rcases List.mem_cons.1 this with h | h
    · rw [h]; exact hR0
    · exact hrest _ h
  have hW := walk_geom pt hp rest R0 (decide (R0.Y < pt.Y)) 0 hR0 hrest hinv0 (by omega)
  -- spec side in chain form
  have hOn : onPath (pathToI (R0 :: rest)) (qof pt.toI) = true ↔
      (onChain pt.toI (pathToI (R0 :: rest)) ∨ onSegI (rest.getLastD R0).toI R0.toI pt.toI) := by
    simp only [pathToI, List.map_cons]
    rw [onPath_cons, onChain_snoc]
    have := getLastD_map rest R0
    simp only [pathToI] at this
    rw [this]
  have hWd : ¬ onPath (pathToI (R0 :: rest)) (qof pt.toI) = true →
      (wind (pathToI (R0 :: rest)) (qof pt.toI) + chain (Lw pt.toI) (pathToI (R0 :: rest))
        + Lw pt.toI (rest.getLastD R0).toI R0.toI) = 0 := by
    intro hno
    simp only [pathToI, List.map_cons] at hno ⊢
    rw [onPath_cons] at hno
    have := chain_tele pt.toI (List.map Point64.toI rest ++ [R0.toI]) R0.toI hno
    rw [wind_eq_chain]
    have e2 := chain_snoc (Lw pt.toI) R0.toI (List.map Point64.toI rest) R0.toI
    have e3 := getLastD_map rest R0
    simp only [pathToI] at e3
    rw [e3] at e2
    rw [List.getLastD_concat] at this
    simp only [List.cons_append] at this e2 ⊢
    omega
  have hside : ∀ a' : Bool, a' = decide (R0.Y < pt.Y) →
      (if a' = true then R0.toI.y < pt.toI.y else pt.toI.y < R0.toI.y) := by
    intro a' ha
    by_cases h : R0.Y < pt.Y
    · simp only [h, decide_true] at ha; subst ha
      rw [Int64.lt_iff_toInt_lt] at h; simp only [if_true]; rw [ey, ey]; omega
    · simp only [h, decide_false] at ha; subst ha
      rw [Int64.lt_iff_toInt_lt] at h; simp only [Bool.false_eq_true, if_false]; rw [ey, ey] at hne' ⊢; omega
  have hother : ∀ a' : Bool, ¬ a' = decide (R0.Y < pt.Y) →
      (if a' = true then pt.toI.y < R0.toI.y else R0.toI.y < pt.toI.y) := by
    intro a' ha
    by_cases h : R0.Y < pt.Y
    · simp only [h, decide_true, Bool.not_eq_true] at ha; subst ha
      rw [Int64.lt_iff_toInt_lt] at h; simp only [Bool.false_eq_true, if_false]; rw [ey, ey]; omega
    · simp only [h, decide_false, Bool.not_eq_false] at ha; subst ha
      rw [Int64.lt_iff_toInt_lt] at h; simp only [if_true]; rw [ey, ey] at hne' ⊢; omega
  cases hw : walk pt R0 (decide (R0.Y < pt.Y)) 0 rest with
  | none =>
    rw [hw] at hW
    simp only [Post] at hW
    rw [if_pos (hOn.2 (Or.inl hW))]
    rfl
  | some av =>
    obtain ⟨a', v'⟩ := av
    rw [hw] at hW
    simp only [Post] at hW
    obtain ⟨w1, w2, w3, w4⟩ := hW
    rw [hpend0] at w4
    simp only [closing]
    by_cases ha : a' = decide (R0.Y < pt.Y)
    · rw [if_pos ha]
      obtain ⟨s1, _, s3⟩ := step1 pt.toI (rest.getLastD R0).toI R0.toI a' w3 (hside a' ha)
      rw [hpend0] at s3
      have hno : ¬ onPath (pathToI (R0 :: rest)) (qof pt.toI) = true := by
        rw [hOn]; exact fun h => h.elim w1 s1
      have := hWd hno
      rw [if_neg hno]
      split_ifs <;> omega
    · rw [if_neg ha]
      obtain ⟨s1, s2, _, _⟩ := step3 pt.toI (rest.getLastD R0).toI R0.toI a' w3 (hother a' ha)
      obtain ⟨c1, c2, _⟩ := Proofs.C14.crossProduct_sign (rest.getLastD R0) R0 pt hlast hR0 hp
      rw [crossZ_eq] at c1 c2
      simp only [c1, c2]
      by_cases hd : crossI (rest.getLastD R0).toI R0.toI pt.toI = 0
      · rw [if_pos hd, if_pos (hOn.2 (Or.inr (s1 hd)))]
      · rw [if_neg hd]
        obtain ⟨t1, _, t3⟩ := s2 hd
        rw [hpend0] at t3
        have hno : ¬ onPath (pathToI (R0 :: rest)) (qof pt.toI) = true := by
          rw [hOn]; exact fun h => h.elim w1 t1
        have := hWd hno
        rw [if_neg hno]
        split_ifs at t3 ⊢ <;> omega

theorem pip_correct (pt : Point64) (poly : Array Point64)
    (hp : pt.inRange) (hr : ∀ q ∈ poly.toList, q.inRange) (h3 : 3 ≤ poly.size)
    (hflat : ∃ q ∈ poly.toList, q.Y ≠ pt.Y) :
    Model.pointInPolygon pt poly =
      (if Spec.onPath (pathToI poly.toList) ⟨(pt.X.toInt : Rat), (pt.Y.toInt : Rat)⟩ then 0
       else if Spec.wind (pathToI poly.toList) ⟨(pt.X.toInt : Rat), (pt.Y.toInt : Rat)⟩ % 2 ≠ 0 then 1 else 2) := by
  obtain ⟨L⟩ := poly
  simp only [List.size_toArray] at hr h3 hflat ⊢
  obtain ⟨start, hs, hon, hne, heq⟩ := pip_eq_walk L pt h3 hflat
  have hmem : L[start]! ∈ L := by
    simp only [hs, getElem!_pos]; exact List.getElem_mem hs
  have hrest : ∀ q ∈ L.drop (start+1) ++ L.take start, q.inRange := by
    intro q hq
    rcases List.mem_append.1 hq with h | h
    · exact hr q (List.mem_of_mem_drop h)
    · exact hr q (List.mem_of_mem_take h)
  have hR := ring_correct pt L[start]! (L.drop (start+1) ++ L.take start) hp (hr _ hmem) hrest hne
  have hq : (⟨(pt.X.toInt : Rat), (pt.Y.toInt : Rat)⟩ : QPt) = qof pt.toI := rfl
  have hrot : L[start]! :: (L.drop (start+1) ++ L.take start) = L.drop start ++ L.take start := by
    rw [drop_cons L start hs]; rfl
  have hsplit : pathToI L = (pathToI L).take start ++ (pathToI L).drop start := (List.take_append_drop _ _).symm
  have hmap : pathToI (L.drop start ++ L.take start) = (pathToI L).drop start ++ (pathToI L).take start := by
    simp only [pathToI, List.map_append, List.map_drop, List.map_take]
  rw [heq, hR, hq, hrot, hmap, wind_rot]
  have := onPath_append_comm pt.toI ((pathToI L).take start) ((pathToI L).drop start)
  rw [← hsplit] at this
  simp only [this]

end Proofs.PIP
