#!/bin/bash
# rebuild the harness against /repo and count C06 violations on a fixed sample
cd /verif/harness && GOTOOLCHAIN=local GOFLAGS=-mod=mod GOPROXY=off GOSUMDB=off go1.26.8 build -tags verif -o /verif/bin/hx . && /verif/bin/hx ${1:-c06-search} -n ${2:-6000} -seed ${3:-3} -out /tmp/cnt.json && python3 -c "
import json
r=json.load(open('/tmp/cnt.json')); print(r['evaluations'], r['distinct_nontrivial'], {k:v for k,v in r['distribution'].items() if 'viol' in k})"
