package main

import (
	"encoding/json"
	"fmt"

	clip "github.com/bolom009/go-clipper2"
)

// C12: an engine's answer depends only on the paths added, not on its history.
type histOp struct {
	Op    string       `json:"op"` // add | exec | execoc | tree
	Paths clip.Paths64 `json:"paths,omitempty"`
	PT    int          `json:"path_type"`
	Open  bool         `json:"open"`
	CT    int          `json:"clip_type"`
	FR    int          `json:"fill_rule"`
	Pre   int          `json:"prefilled"` // number of junk paths already in the solution argument
}
type histCase struct {
	Engine string    `json:"engine"` // 64 | D | offset
	Ops    []histOp  `json:"ops"`
	Deltas []float64 `json:"deltas,omitempty"`
	JT     int       `json:"join_type"`
	ET     int       `json:"end_type"`
}

func junk(n int) clip.Paths64 {
	out := clip.Paths64{}
	for i := 0; i < n; i++ {
		out = append(out, clip.Path64{{X: 7777, Y: 7777}, {X: 8888, Y: 7777}, {X: 8888, Y: 8888}})
	}
	return out
}

func treeDump(n *clip.PolyPathBase, depth int, out *[]string) {
	for _, ch := range n.GetChildren() {
		*out = append(*out, fmt.Sprintf("%d:%v", depth, canonRot(ch.Polygon())))
		treeDump(ch, depth+1, out)
	}
}

// run the history; at every execution compare with a fresh engine given the same paths
func c12Check(o *Oracle, c histCase) (ok bool, kind, detail string) {
	if c.Engine == "offset" {
		return c12Offset(c)
	}
	type added struct {
		paths clip.Paths64
		pt    int
		open  bool
	}
	var adds []added
	isD := c.Engine == "D"
	var e64 = clip.NewClipper64()
	var eD = clip.NewClipperD(2)
	toD := func(ps clip.Paths64) clip.PathsD { return clip.ScalePaths64ToPathsD(ps, 0.01) }
	bad := ""
	executed := false
	_ = executed
	var lastClosed1 clip.Paths64
	var hist64Tree *clip.PolyTree64
	var histDTree *clip.PolyTreeD
	adds2paths := func(as []added) clip.Paths64 {
		var out clip.Paths64
		for _, a := range as {
			if !a.open {
				out = append(out, a.paths...)
			}
		}
		return out
	}
	var regionsAgree func(a, b, band clip.Paths64) bool
	if o != nil {
		regionsAgree = func(a, b, band clip.Paths64) bool {
			k, _ := askRegion(o, regionLine("eqnz", nil, 4, []int{2}, []clip.Paths64{a, b, band}))
			return k
		}
	}
	fault := safeCall(func() {
		for step, op := range c.Ops {
			switch op.Op {
			case "add":
				orig := clonePaths(op.Paths)
				if isD {
					eD.AddPaths(toD(op.Paths), clip.PathType(op.PT), op.Open)
				} else {
					e64.AddPaths(op.Paths, clip.PathType(op.PT), op.Open)
				}
				if !pathsEqual(orig, op.Paths) {
					bad = fmt.Sprintf("step %d: AddPaths modified its argument", step)
					return
				}
				adds = append(adds, added{op.Paths, op.PT, op.Open})
			default:
				// fresh engine: the same AddPaths calls in the same order (isolates the effect of
				// earlier executions); the "one call / another order" reading is compared as a
				// region further down
				f64 := clip.NewClipper64()
				fD := clip.NewClipperD(2)
				for _, a := range adds {
					if isD {
						fD.AddPaths(toD(a.paths), clip.PathType(a.pt), a.open)
					} else {
						f64.AddPaths(a.paths, clip.PathType(a.pt), a.open)
					}
				}
				ct, fr := clip.ClipType(op.CT), clip.FillRule(op.FR)
				var got, want string
				switch {
				case op.Op == "tree" && !isD:
					// the history's engine keeps writing into one tree object, the fresh engine gets a fresh tree
					if hist64Tree == nil {
						hist64Tree = clip.NewPolyTree64()
					}
					t1, t2 := hist64Tree, clip.NewPolyTree64()
					o1, o2 := clip.PathsD{{{X: 1, Y: 1}}}, clip.PathsD{}
					e64.ExecutePolyTree64(ct, fr, t1, &o1)
					f64.ExecutePolyTree64(ct, fr, t2, &o2)
					var a, b []string
					treeDump(t1.PolyPathBase, 1, &a)
					treeDump(t2.PolyPathBase, 1, &b)
					got, want = fmt.Sprint(a, len(o1)), fmt.Sprint(b, len(o2))
				case op.Op == "tree" && isD:
					if histDTree == nil {
						histDTree = clip.NewPolyTreeD()
					}
					t1, t2 := histDTree, clip.NewPolyTreeD()
					o1, o2 := clip.PathsD{{{X: 1, Y: 1}}}, clip.PathsD{}
					eD.ExecutePolyTreeD(ct, fr, t1, &o1)
					fD.ExecutePolyTreeD(ct, fr, t2, &o2)
					var a, b []string
					treeDump(t1.PolyPathBase, 1, &a)
					treeDump(t2.PolyPathBase, 1, &b)
					got, want = fmt.Sprint(a, o1), fmt.Sprint(b, o2)
				case isD:
					s1, s2 := toD(junk(op.Pre)), clip.PathsD{}
					p1, p2 := toD(junk(op.Pre)), clip.PathsD{}
					if op.Op == "exec" {
						eD.Execute(ct, fr, &s1)
						fD.Execute(ct, fr, &s2)
					} else {
						eD.ExecuteOC(ct, fr, &s1, &p1)
						fD.ExecuteOC(ct, fr, &s2, &p2)
					}
					if op.Op == "exec" {
						p1, p2 = nil, nil
					}
					got, want = fmt.Sprint(len(s1), s1, len(p1), p1), fmt.Sprint(len(s2), s2, len(p2), p2)
				default:
					s1, s2 := junk(op.Pre), clip.Paths64{}
					p1, p2 := junk(op.Pre), clip.Paths64{}
					if op.Op == "exec" {
						e64.Execute(ct, fr, &s1)
						f64.Execute(ct, fr, &s2)
						p1, p2 = nil, nil
					} else {
						e64.ExecuteOC(ct, fr, &s1, &p1)
						f64.ExecuteOC(ct, fr, &s2, &p2)
					}
					got, want = fmt.Sprint(len(s1), s1, len(p1), p1), fmt.Sprint(len(s2), s2, len(p2), p2)
					lastClosed1 = s1
				}
				if got != want {
					bad = fmt.Sprintf("step %d (%s %s/%s): used engine returned %s but a fresh engine (same AddPaths calls) returns %s", step, op.Op, ctName(op.CT), frName(op.FR), trunc(got, 500), trunc(want, 500))
					return
				}
				// "paths added in several calls or in another order": a fresh engine given each path
				// class in one call, classes in reverse order, must describe the same region
				if regionsAgree != nil && op.Op == "exec" && !isD && op.CT != 0 {
					g64 := clip.NewClipper64()
					for pt := 1; pt >= 0; pt-- {
						var all clip.Paths64
						for k := len(adds) - 1; k >= 0; k-- {
							if adds[k].pt == pt && !adds[k].open {
								all = append(all, adds[k].paths...)
							}
						}
						g64.AddPaths(all, clip.PathType(pt), false)
					}
					var s3 clip.Paths64
					g64.Execute(ct, fr, &s3)
					if !regionsAgree(lastClosed1, s3, adds2paths(adds)) {
						bad = fmt.Sprintf("step %d (%s %s/%s): region differs from a fresh engine given the same paths in one call per class, reversed order: %s vs %s", step, op.Op, ctName(op.CT), frName(op.FR), trunc(fmt.Sprint(lastClosed1), 300), trunc(fmt.Sprint(s3), 300))
						return
					}
				}
				executed = true
			}
		}
	})
	if fault != "" {
		return true, "", ""
	}
	if bad != "" {
		return false, "history:" + c.Engine, bad
	}
	return true, "", ""
}

func c12Offset(c histCase) (ok bool, kind, detail string) {
	bad := ""
	fault := safeCall(func() {
		co := clip.NewClipperOffset(2, 0, false, false)
		var groups []clip.Paths64
		di := 0
		for step, op := range c.Ops {
			if op.Op == "add" {
				orig := clonePaths(op.Paths)
				co.AddPaths(op.Paths, clip.JoinType(c.JT), clip.EndType(c.ET))
				if !pathsEqual(orig, op.Paths) {
					bad = fmt.Sprintf("step %d: ClipperOffset.AddPaths modified its argument", step)
					return
				}
				groups = append(groups, op.Paths)
				continue
			}
			if len(c.Deltas) == 0 {
				continue
			}
			d := c.Deltas[di%len(c.Deltas)]
			di++
			s1 := junk(op.Pre)
			co.Execute64(d, &s1)
			fresh := clip.NewClipperOffset(2, 0, false, false)
			for _, g := range groups {
				fresh.AddPaths(g, clip.JoinType(c.JT), clip.EndType(c.ET))
			}
			s2 := clip.Paths64{}
			fresh.Execute64(d, &s2)
			if len(groups) == 0 {
				s2 = junk(op.Pre) // nothing to do: the argument is left alone by a fresh object as well
				fresh.Execute64(d, &s2)
			}
			if fmt.Sprint(len(s1), s1) != fmt.Sprint(len(s2), s2) {
				bad = fmt.Sprintf("step %d (offset delta %v): used object returned %s but a fresh object returns %s", step, d, trunc(fmt.Sprint(s1), 400), trunc(fmt.Sprint(s2), 400))
				return
			}
		}
	})
	if fault != "" {
		return true, "", ""
	}
	if bad != "" {
		return false, "history:offset", bad
	}
	return true, "", ""
}

// every path-level library call leaves its input slices untouched
func c12Immutable(r *Rng) (ok bool, detail string) {
	g := GenCfg{Grid: 6, Unit: 10}
	a, b := genPaths(r, g, 3, 7), genPaths(r, g, 2, 6)
	a = append(a, decorate(r, genRandPoly(r, g, 5)))
	a0, b0 := clonePaths(a), clonePaths(b)
	rect := clip.NewRect64(10, 10, 40, 40)
	calls := map[string]func(){
		"BooleanOpPaths64":     func() { clip.BooleanOpPaths64(clip.ClipType(r.Range(1, 4)), a, b, clip.FillRule(r.Intn(4))) },
		"BooleanOpPolyTree64":  func() { clip.BooleanOpPolyTree64(clip.Union, a, b, clip.NonZero) },
		"InflatePaths64":       func() { clip.InflatePaths64(a, 5, clip.JoinType(r.Intn(4)), clip.EndType(r.Intn(5))) },
		"InflatePaths64-small": func() { clip.InflatePaths64(a, 0.2, clip.Miter, clip.Polygon) },
		"MinkowskiSum64":       func() { clip.MinkowskiSum64(a[0], b[0], true) },
		"RectClipPaths64":      func() { clip.RectClipPaths64(rect, a) },
		"RectClipLinesPaths64": func() { clip.RectClipLinesPaths64(rect, a) },
		"TrimCollinear64": func() {
			for _, p := range a {
				clip.TrimCollinear64(p, r.Bool())
			}
		},
		"SimplifyPaths64": func() { clip.SimplifyPaths64(a, 2, true) },
		"StripDuplicates": func() {
			for _, p := range a {
				clip.StripDuplicates(p, true)
			}
		},
		"Area/Bounds/PIP": func() {
			clip.AreaPaths64(a)
			clip.GetBounds64(a[0])
			clip.PointInPolygon(P{X: 20, Y: 20}, a[0])
			clip.Path2ContainsPath1(a[0], b[0])
		},
		"TranslatePaths64": func() { clip.TranslatePaths64(a, 3, 4) },
		"ReversePath":      func() { clip.ReversePath(a[0]) },
	}
	for name, f := range calls {
		if fault := safeCall(f); fault != "" {
			continue
		}
		if !pathsEqual(a, a0) || !pathsEqual(b, b0) {
			return false, fmt.Sprintf("%s modified a caller-supplied path slice", name)
		}
	}
	return true, ""
}

func genHistory(r *Rng) histCase {
	c := histCase{Engine: []string{"64", "D", "offset"}[r.Pick(5, 2, 2)], JT: r.Intn(4), ET: []int{0, 0, 1, 2, 3, 4}[r.Intn(6)]}
	g := GenCfg{Grid: r.Range(3, 7), Unit: 10}
	n := r.Range(2, 10)
	execs := 0
	for i := 0; i < n; i++ {
		if i == 0 || r.Chance(0.45) {
			op := histOp{Op: "add", PT: r.Pick(3, 2), Open: false, Paths: genPaths(r, g, 2, 6)}
			if c.Engine != "offset" && r.Chance(0.12) {
				op.Open, op.PT = true, 0
				op.Paths = clip.Paths64{genPolyline(r, g)}
			}
			c.Ops = append(c.Ops, op)
		} else {
			kind := []string{"exec", "execoc", "tree"}[r.Pick(4, 3, 3)]
			c.Ops = append(c.Ops, histOp{Op: kind, CT: r.Range(0, 4), FR: r.Intn(4), Pre: r.Pick(3, 1, 1)})
			execs++
		}
	}
	if execs == 0 {
		c.Ops = append(c.Ops, histOp{Op: "exec", CT: r.Range(1, 4), FR: r.Intn(4)})
	}
	for i := 0; i < 3; i++ {
		c.Deltas = append(c.Deltas, []float64{0.3, 5, -5, 12, -3, 0, 25}[r.Intn(7)])
	}
	return c
}

func init() {
	stages["c12-search"] = func(ctx *Ctx, cnt func(q, t int) int, replay string) Result {
		col := NewCollector("C12", "search", "random histories (2-10 operations) of AddPaths / Execute / ExecuteOC / ExecutePolyTree with changing clip types and fill rules, pre-filled solution arguments (the history's engine writes every tree result into one and the same tree object) and open paths on clipper64 and clipperD, and AddPaths / Execute64 with changing deltas on ClipperOffset; every execution's result is compared exactly with that of a fresh object given the same paths in one call per path class; deep copies of every input are compared after each call, and every path-level library call is checked for input immutability (including writes by the caller into returned slices); non-trivial = a history with ≥ 2 executions; distinct by history")
		parallelFor(ctx, cnt(40000, 400000), true, col, func(o *Oracle, i int) {
			r := NewRng(ctx.Seed, "c12", i)
			if i%10 == 9 {
				ok, detail := c12Immutable(r)
				col.Eval(fmt.Sprint("imm", i), true, "immutability")
				if !ok && !col.KindFull("input-modified") {
					col.Violate(Violation{Property: "C12", Kind: "input-modified", Signature: "input:" + detail[:20], Detail: detail, Case: map[string]interface{}{"immutability_seed_index": i}, Stream: "c12", Index: i, Seed: ctx.Seed})
				}
				return
			}
			c := genHistory(r)
			ok, kind, detail := c12Check(o, c)
			ex := 0
			for _, op := range c.Ops {
				if op.Op != "add" {
					ex++
				}
			}
			col.Eval(fmt.Sprint(c), ex >= 2, "engine="+c.Engine, fmt.Sprintf("execs=%d", min(ex, 5)))
			col.Sample(c)
			if !ok && !col.KindFull(kind) {
				// shrink: drop operations while the failure persists
				for changed := true; changed; {
					changed = false
					for k := 0; k < len(c.Ops); k++ {
						cc := c
						cc.Ops = append(append([]histOp{}, c.Ops[:k]...), c.Ops[k+1:]...)
						if k2, kd, _ := c12Check(o, cc); !k2 && kd == kind {
							c = cc
							changed = true
							k--
						}
					}
				}
				_, _, detail = c12Check(o, c)
				col.Violate(Violation{Property: "C12", Kind: kind, Signature: sigOf(c), Detail: detail, Case: c, Stream: "c12", Index: i, Seed: ctx.Seed})
			}
		})
		return col.Finish()
	}
	replays["c12-search"] = func(ctx *Ctx, o *Oracle, raw json.RawMessage) *Violation {
		var probe map[string]interface{}
		json.Unmarshal(raw, &probe)
		if idx, isImm := probe["immutability_seed_index"]; isImm {
			if ok, detail := c12Immutable(NewRng(ctx.Seed, "c12", int(idx.(float64)))); !ok {
				return &Violation{Property: "C12", Kind: "input-modified", Signature: "input:" + detail[:20], Detail: detail, Case: probe}
			}
			return nil
		}
		var c histCase
		if err := json.Unmarshal(raw, &c); err != nil {
			fatal("replay case: %v", err)
		}
		if ok, kind, detail := c12Check(o, c); !ok {
			return &Violation{Property: "C12", Kind: kind, Signature: sigOf(c), Detail: detail, Case: c}
		}
		return nil
	}
}
