import ClipVerif.Proofs.C16
import ClipVerif.Proofs.C16b
import ClipVerif.Proofs.C16c
/-
C16 — SimplifyPath removes only near-collinear vertices.  Theorems about the hand model
`Model.simplifyPath`, generic in the distance type (so they cover SimplifyPath64 and SimplifyPathD
alike, whatever the floating-point distance function returns); tied to the code by `models-corr`.
-/
namespace C16
open Gen Model

variable {D : Type} [LT D] [LE D] [DecidableRel (α := D) (· < ·)] [DecidableRel (α := D) (· ≤ ·)] [Inhabited D]

/-- paths with fewer than 4 points are returned as they are -/
theorem simplify_short (dist : Point64 → Point64 → Point64 → D) (maxD : D) (path : Array Point64) (epsSq : D)
    (closed : Bool) (h : path.size < 4) : simplifyPath dist maxD path epsSq closed = path := by
  unfold simplifyPath
  simp only [if_pos h]

/-- the result is a sub-sequence of the input -/
theorem simplify_sublist (dist : Point64 → Point64 → Point64 → D) (maxD : D) (path : Array Point64) (epsSq : D)
    (closed : Bool) : (simplifyPath dist maxD path epsSq closed).toList.Sublist path.toList := by
  exact Proofs.C16.simplify_sublist dist maxD path epsSq closed

/-- `getNext` returns an unflagged index when one exists -/
theorem getNext_unflagged (current high : Nat) (flags : Array Bool) (hs : flags.size = high + 1)
    (hc : current ≤ high) (hex : ∃ i, i ≤ high ∧ flags[i]! = false) :
    getNext current high flags ≤ high ∧ flags[getNext current high flags]! = false := by
  exact Proofs.C16.getNext_unflagged current high flags hc hex

theorem getPrior_unflagged (current high : Nat) (flags : Array Bool) (hs : flags.size = high + 1)
    (hc : current ≤ high) (hex : ∃ i, i ≤ high ∧ flags[i]! = false) :
    getPrior current high flags ≤ high ∧ flags[getPrior current high flags]! = false := by
  exact Proofs.C16.getPrior_unflagged current high flags hc hex

/-- one step of the removal loop flags exactly one more vertex (so the loop ends within `size` steps) -/
theorem simplifyStep_flags_one (dist : Point64 → Point64 → Point64 → D) (path : Array Point64) (epsSq : D)
    (closed : Bool) (high : Nat) (s s' : SimpState D) (h : simplifyStep dist path epsSq closed high s = some s')
    (hs : s.flags.size = high + 1) :
    s'.flags.size = s.flags.size ∧
    (s'.flags.toList.filter (· = true)).length ≤ (s.flags.toList.filter (· = true)).length + 1 := by
  exact Proofs.C16.simplifyStep_flags_one dist path epsSq closed high s s' h

/-- post-condition of `SimplifyPath64` (the state in which the outer loop stops): unless only two
    vertices remain, no retained vertex (end points of an open path aside) is within ε of the line
    through its two retained neighbours.  `dist` is any distance function, `D` any ordered type in
    which `epsSq < a` is the negation of `a ≤ epsSq` (true of `float64` without NaN). -/
theorem simplify_post (dist : Point64 → Point64 → Point64 → D) (maxD : D) (path : Array Point64) (epsSq : D)
    (closed : Bool) (hl : 4 ≤ path.size) (htot : ∀ a : D, epsSq < a ↔ ¬ (a ≤ epsSq))
    (hsym : ∀ p a b, dist p a b = dist p b a) :
    let s := simplifyFinal dist maxD path epsSq closed
    let high := path.size - 1
    ∀ i, i ≤ high → s.flags[i]! = false → (closed = true ∨ (i ≠ 0 ∧ i ≠ high)) →
      getNext i high s.flags ≠ getPrior i high s.flags →
      ¬ (dist path[i]! path[getPrior i high s.flags]! path[getNext i high s.flags]! ≤ epsSq) := by
  exact Proofs.C16b.simplify_post dist maxD path epsSq closed hl htot hsym

/-- `hsym` cannot be dropped from `simplify_post`: for a closed path the code initialises `distSqr[high]`
    as `dist path[high] path[0] path[high-1]` (line points in the order next, prior), so for a distance
    that depends on the order of the two line points the cache says nothing about
    `dist path[high] path[high-1] path[0]`.  Witness: the square `(0,0) (10,0) (10,10) (0,10)`, closed, ε² = 0,
    `dist p a b = if p = (0,10) ∧ a = (10,10) then 0 else 1` — nothing is removed, yet vertex 3 is at distance 0. -/
theorem simplify_post_needs_symmetry :
    ∃ (dist : Point64 → Point64 → Point64 → Nat) (maxD : Nat) (path : Array Point64) (epsSq : Nat) (closed : Bool),
      4 ≤ path.size ∧ (∀ a : Nat, epsSq < a ↔ ¬ (a ≤ epsSq)) ∧
      ¬ (let s := simplifyFinal dist maxD path epsSq closed
         let high := path.size - 1
         ∀ i, i ≤ high → s.flags[i]! = false → (closed = true ∨ (i ≠ 0 ∧ i ≠ high)) →
           getNext i high s.flags ≠ getPrior i high s.flags →
           ¬ (dist path[i]! path[getPrior i high s.flags]! path[getNext i high s.flags]! ≤ epsSq)) := by
  exact Proofs.C16b.needs_symmetry

/-- the retained indices do not change under any map of the plane that preserves the distance function
    — in particular under every translation, mirror image and quarter turn when the distance is
    computed from coordinate differences: the algorithm looks at the points only through `dist`.
    (That the float64 distance of the code IS translation invariant within 2^53 is not proved — no theorem
    mentions `Float` — and is explored by c16-search.) -/
theorem simplify_map_invariant {D : Type} [LT D] [LE D] [DecidableRel (α := D) (· < ·)]
    [DecidableRel (α := D) (· ≤ ·)] [Inhabited D]
    (dist : Point64 → Point64 → Point64 → D) (maxD : D) (path : Array Point64) (epsSq : D) (isClosed : Bool)
    (f : Point64 → Point64) (hf : ∀ a b c, dist (f a) (f b) (f c) = dist a b c) :
    Model.simplifyPath dist maxD (path.map f) epsSq isClosed =
      (Model.simplifyPath dist maxD path epsSq isClosed).map f := by
  exact Proofs.C16c.simplify_map dist maxD path epsSq isClosed f hf

end C16
