import ClipVerif.Proofs.C06
/-
C06 — rectangle clipping keeps exactly what is inside the rectangle.  Proved: the location algebra
and the driver's fast paths (everything the clipper decides locally); the winding equality of the
whole state machine is explored by the search with the Lean region oracle.  Statements are about
the generated `Gen.*` functions.  Location numbering: 0 Left, 1 Top, 2 Right, 3 Bottom, 4 Inside.
-/
namespace C06
open Gen

def wf (r : Rect64) : Prop := r.left ≤ r.right ∧ r.top ≤ r.bottom

/-- the flag is false exactly for points on the rectangle's boundary -/
theorem getLocation_on_boundary (r : Rect64) (p : Point64) (h : wf r) :
    (getLocation r p).2 = false ↔
      ((p.X = r.left ∨ p.X = r.right) ∧ r.top ≤ p.Y ∧ p.Y ≤ r.bottom) ∨
      ((p.Y = r.top ∨ p.Y = r.bottom) ∧ r.left ≤ p.X ∧ p.X ≤ r.right) := by
  exact Proofs.C06.getLocation_on_boundary r p

/-- off the boundary the location is Inside exactly for interior points, otherwise names a side
    the point lies strictly beyond -/
theorem getLocation_off_boundary (r : Rect64) (p : Point64) (h : wf r) (hb : (getLocation r p).2 = true) :
    ((getLocation r p).1 = 4 ↔ (r.left < p.X ∧ p.X < r.right ∧ r.top < p.Y ∧ p.Y < r.bottom)) ∧
    ((getLocation r p).1 = 0 → p.X < r.left) ∧ ((getLocation r p).1 = 2 → p.X > r.right) ∧
    ((getLocation r p).1 = 1 → p.Y < r.top) ∧ ((getLocation r p).1 = 3 → p.Y > r.bottom) ∧
    (0 ≤ (getLocation r p).1 ∧ (getLocation r p).1 ≤ 4) := by
  exact Proofs.C06.getLocation_off_boundary r p hb

/-- moving clockwise and back is the identity on the four sides; clockwise neighbours are recognised -/
theorem adjacent_location_cycle (loc : Int) (h : 0 ≤ loc ∧ loc ≤ 3) :
    getAdjacentLocation (getAdjacentLocation loc true) false = loc ∧
    getAdjacentLocation (getAdjacentLocation loc false) true = loc ∧
    headingClockwise loc (getAdjacentLocation loc true) = true ∧
    headingClockwise loc (getAdjacentLocation loc false) = false ∧
    (0 ≤ getAdjacentLocation loc true ∧ getAdjacentLocation loc true ≤ 3) := by
  exact Proofs.C06.adjacent_location_cycle loc h

theorem areOpposites_iff (a b : Int) (ha : 0 ≤ a ∧ a ≤ 4) (hb : 0 ≤ b ∧ b ≤ 4) :
    areOpposites a b = true ↔ (a - b = 2 ∨ b - a = 2) := by
  exact Proofs.C06.areOpposites_iff a b ha hb

/-- bit j of getEdgesForPt is set iff the point lies on the line carrying side j -/
theorem getEdgesForPt_spec (p : Point64) (r : Rect64) (h : r.left < r.right ∧ r.top < r.bottom) :
    (getEdgesForPt p r % 2 = 1 ↔ p.X = r.left) ∧ (getEdgesForPt p r / 2 % 2 = 1 ↔ p.Y = r.top) ∧
    (getEdgesForPt p r / 4 % 2 = 1 ↔ p.X = r.right) ∧ (getEdgesForPt p r / 8 % 2 = 1 ↔ p.Y = r.bottom) := by
  exact Proofs.C06.getEdgesForPt_spec p r h

/-- fast path "unchanged": if the rectangle contains the path's bounds every vertex is inside it -/
theorem contains_bounds_all_inside (r : Rect64) (path : List Point64) (hne : path ≠ [])
    (hc : Rect64_Contains r (getBounds path) = true) :
    ∀ p ∈ path, r.left ≤ p.X ∧ p.X ≤ r.right ∧ r.top ≤ p.Y ∧ p.Y ≤ r.bottom := by
  exact Proofs.C06.contains_bounds_all_inside r path hne hc

/-- fast path "dropped": if the rectangle does not meet the path's bounds, all vertices lie strictly
    beyond one and the same side -/
theorem not_intersects_all_outside (r : Rect64) (path : List Point64) (hne : path ≠ []) (h : wf r)
    (hc : Rect64_Intersects r (getBounds path) = false) :
    (∀ p ∈ path, p.X < r.left) ∨ (∀ p ∈ path, p.X > r.right) ∨ (∀ p ∈ path, p.Y < r.top) ∨ (∀ p ∈ path, p.Y > r.bottom) := by
  exact Proofs.C06.not_intersects_all_outside r path hne h hc

theorem isEmpty_iff (r : Rect64) : Rect64_IsEmpty r = true ↔ (r.bottom ≤ r.top ∨ r.right ≤ r.left) := by
  exact Proofs.C06.isEmpty_iff r

example : wf ⟨0, 0, 10, 10⟩ ∧ (getLocation ⟨0, 0, 10, 10⟩ ⟨5, 5⟩).2 = true := by
  refine ⟨by unfold wf; decide, by decide⟩

end C06
