#!/bin/bash
# usage: tryseed.sh <patch> <prop>... ; applies the patch to /repo, runs the quick checks, restores /repo
patch=$1; shift
cd /repo && git apply "$patch" || { echo "PATCH DOES NOT APPLY"; exit 2; }
(go build ./... && go test -count=1 ./... 2>&1 | grep -E "^(--- FAIL|ok|FAIL)")
cd /verif
for p in "$@"; do
  /usr/bin/time -f "   ($p took %es)" ./check $p 2>&1 | grep -E "VIOLATION|OK property|broken|took|KNOWN" | cut -c1-260 | head -8
done
cd /repo && git checkout -- . && git status --short | head -3
