import ClipVerif.Model.Ring
/-
Proofs about `Model.Ring` (assembly of output rings): the coupling between hot edges and output records
is an invariant of every valid operation sequence, valid operations never fault, and a ring grows like a
double-ended queue whose two tips are the front and the back edge.
-/
namespace Proofs.Ring
open Model.Ring Gen

/-- coupling of hot edges and output records: a hot edge's record exists, has points and names the edge
as its front or back edge; a record's front / back edge is a hot edge of that record; front ≠ back -/
def invB (s : St) : Bool :=
  ((List.range s.edgeRec.length).all fun e =>
    match s.recOf e with
    | none => true
    | some r => decide (r < s.recs.length) && ((s.getRec r).front == some e || (s.getRec r).back == some e) &&
        !(s.getRec r).pts.isEmpty) &&
  ((List.range s.recs.length).all fun r =>
    (match (s.getRec r).front with
     | none => true
     | some e => decide (e < s.edgeRec.length) && s.recOf e == some r && (s.getRec r).back != some e) &&
    (match (s.getRec r).back with
     | none => true
     | some e => decide (e < s.edgeRec.length) && s.recOf e == some r))

/-- what the engine guarantees when it calls the four functions: local minima are started on two different
cold edges, points are added to hot edges, local maxima close two different hot edges, edges exist -/
def validB (s : St) : Op → Bool
  | .min e1 e2 _ _ => decide (e1 < s.edgeRec.length) && decide (e2 < s.edgeRec.length) && e1 != e2 &&
      (s.recOf e1).isNone && (s.recOf e2).isNone
  | .pt e _ => decide (e < s.edgeRec.length) && (s.recOf e).isSome
  | .max e1 e2 _ => decide (e1 < s.edgeRec.length) && decide (e2 < s.edgeRec.length) && e1 != e2 &&
      (s.recOf e1).isSome && (s.recOf e2).isSome
  | .swap e1 e2 => decide (e1 < s.edgeRec.length) && decide (e2 < s.edgeRec.length) && e1 != e2

/-! ### get / set frame lemmas -/

@[simp] theorem recs_length_setRec (s : St) (r : Nat) (x : Rec) : (s.setRec r x).recs.length = s.recs.length := by
  simp [St.setRec]
@[simp] theorem edgeRec_setRec (s : St) (r : Nat) (x : Rec) : (s.setRec r x).edgeRec = s.edgeRec := rfl
@[simp] theorem succeeded_setRec (s : St) (r : Nat) (x : Rec) : (s.setRec r x).succeeded = s.succeeded := rfl
@[simp] theorem recs_setEdge (s : St) (e : Nat) (v : Option Nat) : (s.setEdge e v).recs = s.recs := rfl
@[simp] theorem edgeRec_length_setEdge (s : St) (e : Nat) (v : Option Nat) :
    (s.setEdge e v).edgeRec.length = s.edgeRec.length := by simp [St.setEdge]
@[simp] theorem recOf_setRec (s : St) (r : Nat) (x : Rec) (e : Nat) : (s.setRec r x).recOf e = s.recOf e := rfl
@[simp] theorem getRec_setEdge (s : St) (e : Nat) (v : Option Nat) (r : Nat) : (s.setEdge e v).getRec r = s.getRec r := rfl

theorem getRec_setRec (s : St) (r : Nat) (x : Rec) (r' : Nat) :
    (s.setRec r x).getRec r' = if r = r' ∧ r < s.recs.length then x else s.getRec r' := by
  simp only [St.getRec, St.setRec, List.getD_eq_getElem?_getD, List.getElem?_set]
  by_cases h : r = r'
  · subst h
    by_cases h' : r < s.recs.length
    · simp [h']
    · simp [h']
  · simp [h]

theorem recOf_setEdge (s : St) (e : Nat) (v : Option Nat) (e' : Nat) :
    (s.setEdge e v).recOf e' = if e = e' ∧ e < s.edgeRec.length then v else s.recOf e' := by
  simp only [St.recOf, St.setEdge, List.getD_eq_getElem?_getD, List.getElem?_set]
  by_cases h : e = e'
  · subst h
    by_cases h' : e < s.edgeRec.length
    · simp [h']
    · simp [h']
  · simp [h]

theorem getRec_of_ge (s : St) (r : Nat) (h : s.recs.length ≤ r) : s.getRec r = {} := by
  simp [St.getRec, List.getD_eq_getElem?_getD, List.getElem?_eq_none h]

theorem recOf_of_ge (s : St) (e : Nat) (h : s.edgeRec.length ≤ e) : s.recOf e = none := by
  simp [St.recOf, List.getD_eq_getElem?_getD, List.getElem?_eq_none h]

theorem recOf_lt (s : St) (e r : Nat) (h : s.recOf e = some r) : e < s.edgeRec.length := by
  by_cases h' : e < s.edgeRec.length
  · exact h'
  · rw [recOf_of_ge s e (Nat.le_of_not_lt h')] at h; cases h

/-! ### `setOwner` only touches `owner` fields -/

def Same (s s' : St) : Prop :=
  s'.edgeRec = s.edgeRec ∧ s'.recs.length = s.recs.length ∧
  ∀ r, (s'.getRec r).pts = (s.getRec r).pts ∧ (s'.getRec r).front = (s.getRec r).front ∧
    (s'.getRec r).back = (s.getRec r).back

theorem Same.refl (s : St) : Same s s := ⟨rfl, rfl, fun _ => ⟨rfl, rfl, rfl⟩⟩

theorem Same.trans {a b c : St} (h1 : Same a b) (h2 : Same b c) : Same a c := by
  obtain ⟨e1, l1, f1⟩ := h1
  obtain ⟨e2, l2, f2⟩ := h2
  refine ⟨e2.trans e1, l2.trans l1, fun r => ?_⟩
  obtain ⟨a1, a2, a3⟩ := f1 r
  obtain ⟨b1, b2, b3⟩ := f2 r
  exact ⟨b1.trans a1, b2.trans a2, b3.trans a3⟩

theorem Same.setOwnerField (s : St) (r : Nat) (o : Option Nat) :
    Same s (s.setRec r { s.getRec r with owner := o }) := by
  refine ⟨rfl, by simp, fun r' => ?_⟩
  rw [getRec_setRec]
  split
  · next h => obtain ⟨rfl, _⟩ := h; exact ⟨rfl, rfl, rfl⟩
  · exact ⟨rfl, rfl, rfl⟩

theorem Same.skip (fuel : Nat) (s : St) (r : Nat) : Same s (skipEmptyOwners fuel s r) := by
  induction fuel generalizing s with
  | zero => exact Same.refl s
  | succ n ih =>
    unfold skipEmptyOwners
    split
    · split
      · exact (Same.setOwnerField s r _).trans (ih _)
      · exact Same.refl s
    · exact Same.refl s

theorem Same.setOwner (s : St) (a b : Nat) : Same s (setOwner s a b) := by
  unfold Model.Ring.setOwner
  have h1 := Same.skip (s.recs.length + 1) s b
  generalize skipEmptyOwners (s.recs.length + 1) s b = s1 at h1 ⊢
  refine Same.trans h1 ?_
  refine Same.trans ?_ (Same.setOwnerField _ a _)
  split
  · exact Same.setOwnerField _ _ _
  · exact Same.refl _

@[simp] theorem setOwner_edgeRec (s : St) (a b : Nat) : (setOwner s a b).edgeRec = s.edgeRec := (Same.setOwner s a b).1
@[simp] theorem setOwner_recs_length (s : St) (a b : Nat) : (setOwner s a b).recs.length = s.recs.length :=
  (Same.setOwner s a b).2.1
@[simp] theorem setOwner_pts (s : St) (a b r : Nat) : ((setOwner s a b).getRec r).pts = (s.getRec r).pts :=
  ((Same.setOwner s a b).2.2 r).1
@[simp] theorem setOwner_front (s : St) (a b r : Nat) : ((setOwner s a b).getRec r).front = (s.getRec r).front :=
  ((Same.setOwner s a b).2.2 r).2.1
@[simp] theorem setOwner_back (s : St) (a b r : Nat) : ((setOwner s a b).getRec r).back = (s.getRec r).back :=
  ((Same.setOwner s a b).2.2 r).2.2
@[simp] theorem setOwner_recOf (s : St) (a b e : Nat) : (setOwner s a b).recOf e = s.recOf e := by
  simp [St.recOf]


/-! ### Prop-level invariant -/

structure Inv (s : St) : Prop where
  hot : ∀ e r, s.recOf e = some r →
    r < s.recs.length ∧ ((s.getRec r).front = some e ∨ (s.getRec r).back = some e) ∧ (s.getRec r).pts ≠ []
  front : ∀ r e, (s.getRec r).front = some e → s.recOf e = some r ∧ (s.getRec r).back ≠ some e
  back : ∀ r e, (s.getRec r).back = some e → s.recOf e = some r

theorem invB_iff (s : St) : invB s = true ↔ Inv s := by
  constructor
  · intro h
    simp only [invB, Bool.and_eq_true, List.all_eq_true, List.mem_range] at h
    obtain ⟨hA, hB⟩ := h
    refine ⟨fun e r her => ?_, fun r e hf => ?_, fun r e hb => ?_⟩
    · have := hA e (recOf_lt s e r her)
      simp [her] at this
      grind
    · by_cases hr : r < s.recs.length
      · have := (hB r hr).1
        simp [hf] at this
        grind
      · rw [getRec_of_ge s r (Nat.le_of_not_lt hr)] at hf; cases hf
    · by_cases hr : r < s.recs.length
      · have := (hB r hr).2
        simp [hb] at this
        grind
      · rw [getRec_of_ge s r (Nat.le_of_not_lt hr)] at hb; cases hb
  · intro ⟨hA, hB, hC⟩
    simp only [invB, Bool.and_eq_true, List.all_eq_true, List.mem_range]
    refine ⟨fun e he => ?_, fun r hr => ⟨?_, ?_⟩⟩
    · split
      · rfl
      · next r her =>
        have := hA e r her
        simp; grind
    · split
      · rfl
      · next e hf =>
        have := hB r e hf
        have := recOf_lt s e r this.1
        simp; grind
    · split
      · rfl
      · next e hb =>
        have := hC r e hb
        have := recOf_lt s e r this
        simp; grind


set_option linter.unusedSimpArgs false
set_option linter.unusedVariables false

macro "frame_simp" : tactic => `(tactic|
  simp only [recOf_setRec, recs_length_setRec, getRec_setRec, recOf_setEdge, getRec_setEdge, recs_setEdge,
    edgeRec_length_setEdge, edgeRec_setRec, setOwner_edgeRec, setOwner_recs_length, setOwner_pts, setOwner_front,
    setOwner_back, setOwner_recOf] at *)

theorem inv_swap (s : St) (e1 e2 : Nat) (hi : Inv s) (h1 : e1 < s.edgeRec.length) (h2 : e2 < s.edgeRec.length)
    (hne : e1 ≠ e2) : Inv (swapOutrecs s e1 e2) := by
  obtain ⟨hA, hB, hC⟩ := hi
  unfold swapOutrecs
  simp only []
  split
  · next h =>
    simp only [Bool.and_eq_true, beq_iff_eq] at h
    obtain ⟨ha, hb⟩ := h
    obtain ⟨r, hr⟩ := Option.isSome_iff_exists.mp ha
    have hr2 : s.recOf e2 = some r := by rw [← hb, hr]
    have hlt := (hA e1 r hr).1
    simp only [hr, Option.getD_some]
    constructor
    · intro e r' h
      frame_simp
      grind
    · intro r' e h
      frame_simp
      grind
    · intro r' e h
      frame_simp
      grind
  · next h =>
    cases hr1 : s.recOf e1 <;> cases hr2 : s.recOf e2 <;> simp only [hr1, hr2, replaceSide] at h ⊢
    all_goals
      constructor
      · intro e r' h
        frame_simp
        grind
      · intro r' e h
        frame_simp
        grind
      · intro r' e h
        frame_simp
        grind

theorem addPtRing_ne_nil (ring : List Point64) (b : Bool) (p : Point64) (h : ring ≠ []) :
    (addPtRing ring b p).1 ≠ [] := by
  cases ring with
  | nil => exact absurd rfl h
  | cons f rest =>
    unfold addPtRing
    simp only []
    split
    · simp
    · split
      · simp
      · split <;> simp

theorem inv_setPts (s : St) (r : Nat) (l : List Point64) (hi : Inv s) (hl : l ≠ []) :
    Inv (s.setRec r { s.getRec r with pts := l }) := by
  obtain ⟨hA, hB, hC⟩ := hi
  constructor
  · intro e r' h
    frame_simp
    grind
  · intro r' e h
    frame_simp
    grind
  · intro r' e h
    frame_simp
    grind

theorem addOutPt_spec (s : St) (e r : Nat) (p : Point64) (hi : Inv s) (hr : s.recOf e = some r) :
    ∃ l pos, addOutPt s e p = some (s.setRec r { s.getRec r with pts := l }, pos) ∧ l ≠ [] := by
  have hne := (hi.hot e r hr).2.2
  unfold addOutPt
  simp only [hr]
  rw [if_neg (by simpa using hne)]
  exact ⟨_, _, rfl, addPtRing_ne_nil _ _ _ hne⟩


def pushRec (s : St) : St := { s with recs := s.recs ++ [({} : Rec)] }

theorem pushRec_getRec (s : St) (r : Nat) : (pushRec s).getRec r = s.getRec r := by
  simp only [pushRec, St.getRec, List.getD_eq_getElem?_getD]
  by_cases h : r < s.recs.length
  · simp [List.getElem?_append_left h]
  · have h' : s.recs.length ≤ r := Nat.le_of_not_lt h
    rw [List.getElem?_append_right h']
    by_cases h2 : r - s.recs.length = 0
    · simp [h2, List.getElem?_eq_none h']
    · have : ([({} : Rec)])[r - s.recs.length]? = none := by
        apply List.getElem?_eq_none; simp; omega
      simp [this, List.getElem?_eq_none h']

theorem pushRec_recOf (s : St) (e : Nat) : (pushRec s).recOf e = s.recOf e := rfl
theorem pushRec_edgeRec (s : St) : (pushRec s).edgeRec = s.edgeRec := rfl
theorem pushRec_length (s : St) : (pushRec s).recs.length = s.recs.length + 1 := by simp [pushRec]

/-- `addLocalMinPoly` after the new record has been appended -/
def minBody (s : St) (r e1 e2 : Nat) (p : Point64) (isNew usingTree : Bool) : St :=
  let s := (s.setEdge e1 (some r)).setEdge e2 (some r)
  let s :=
    match prevHot s e1 with
    | some k =>
      let pr := (s.recOf k).getD 0
      let s := if usingTree then setOwner s r pr else s
      let s := s.setRec r { s.getRec r with owner := some pr }
      let ascending := (s.getRec pr).front == some k
      if ascending == isNew then s.setRec r { s.getRec r with front := some e2, back := some e1 }
      else s.setRec r { s.getRec r with front := some e1, back := some e2 }
    | none =>
      let s := s.setRec r { s.getRec r with owner := none }
      if isNew then s.setRec r { s.getRec r with front := some e1, back := some e2 }
      else s.setRec r { s.getRec r with front := some e2, back := some e1 }
  s.setRec r { s.getRec r with pts := [p] }

theorem addLocalMinPoly_eq (s : St) (e1 e2 : Nat) (p : Point64) (isNew t : Bool) :
    addLocalMinPoly s e1 e2 p isNew t = minBody (pushRec s) s.recs.length e1 e2 p isNew t := rfl

theorem getRec_setRec_same (s : St) (r : Nat) (x : Rec) (h : r < s.recs.length) :
    (s.setRec r x).getRec r = x := by rw [getRec_setRec]; simp [h]
theorem getRec_setRec_ne (s : St) (r r' : Nat) (x : Rec) (h : r ≠ r') :
    (s.setRec r x).getRec r' = s.getRec r' := by rw [getRec_setRec]; simp [h]

theorem inv_min_obs (s0 s' : St) (n e1 e2 : Nat)
    (h1 : e1 < s0.edgeRec.length) (h2 : e2 < s0.edgeRec.length) (hne : e1 ≠ e2)
    (hc1 : s0.recOf e1 = none) (hc2 : s0.recOf e2 = none)
    (hA : ∀ e r, s0.recOf e = some r →
      r < n ∧ ((s0.getRec r).front = some e ∨ (s0.getRec r).back = some e) ∧ (s0.getRec r).pts ≠ [])
    (hB : ∀ r e, (s0.getRec r).front = some e → s0.recOf e = some r ∧ (s0.getRec r).back ≠ some e)
    (hC : ∀ r e, (s0.getRec r).back = some e → s0.recOf e = some r)
    (hE : ∀ e, s'.recOf e = if e2 = e then some n else if e1 = e then some n else s0.recOf e)
    (hlen : s'.recs.length = n + 1)
    (hO : ∀ r, r ≠ n → (s'.getRec r).front = (s0.getRec r).front ∧ (s'.getRec r).back = (s0.getRec r).back ∧
      (s'.getRec r).pts = (s0.getRec r).pts)
    (hN : (s'.getRec n).pts ≠ [] ∧ (((s'.getRec n).front = some e1 ∧ (s'.getRec n).back = some e2) ∨
      ((s'.getRec n).front = some e2 ∧ (s'.getRec n).back = some e1))) : Inv s' := by
  constructor
  · intro e r h
    grind
  · intro r e h
    grind
  · intro r e h
    grind

theorem inv_min (s : St) (e1 e2 : Nat) (p : Point64) (isNew t : Bool) (hi : Inv s)
    (h1 : e1 < s.edgeRec.length) (h2 : e2 < s.edgeRec.length) (hne : e1 ≠ e2)
    (hc1 : s.recOf e1 = none) (hc2 : s.recOf e2 = none) :
    Inv (addLocalMinPoly s e1 e2 p isNew t) ∧
    (addLocalMinPoly s e1 e2 p isNew t).edgeRec.length = s.edgeRec.length := by
  obtain ⟨hA, hB, hC⟩ := hi
  rw [addLocalMinPoly_eq]
  have hnew : s.getRec s.recs.length = {} := getRec_of_ge s _ (Nat.le_refl _)
  have hnew1 : (s.getRec s.recs.length).front = none := by rw [hnew]
  have hnew2 : (s.getRec s.recs.length).back = none := by rw [hnew]
  rw [← pushRec_edgeRec s] at h1 h2 ⊢
  have hlen := pushRec_length s
  simp only [← pushRec_getRec s, ← pushRec_recOf s] at hA hB hC hc1 hc2 hnew1 hnew2
  clear hnew
  generalize pushRec s = s0 at *
  generalize s.recs.length = n at *
  clear s
  unfold minBody
  simp only []
  cases t <;> cases isNew <;> simp only [if_true, if_false, Bool.false_eq_true] <;> split <;> (try split)
  all_goals
    refine ⟨inv_min_obs s0 _ n e1 e2 h1 h2 hne hc1 hc2 hA hB hC ?_ ?_ ?_ ?_, by frame_simp; try rfl⟩
    · intro e
      simp [recOf_setEdge, h1, h2]
    · simp [hlen]
    · intro r hr
      have hr' : n ≠ r := Ne.symm hr
      simp [getRec_setRec_ne, hr']
    · simp [getRec_setRec_same, hlen]


theorem inv_of_same (s s' : St) (h : Same s s') (hi : Inv s) : Inv s' := by
  obtain ⟨hA, hB, hC⟩ := hi
  obtain ⟨hE, hL, hR⟩ := h
  have hrec : ∀ e, s'.recOf e = s.recOf e := fun e => by simp [St.recOf, hE]
  constructor
  · intro e r h
    grind
  · intro r e h
    grind
  · intro r e h
    grind

theorem inv_uncouple (s : St) (e : Nat) (hi : Inv s) :
    Inv (uncouple s e) ∧ (uncouple s e).edgeRec.length = s.edgeRec.length := by
  unfold uncouple
  split
  · exact ⟨hi, rfl⟩
  · next r hr =>
    obtain ⟨hA, hB, hC⟩ := hi
    have hlt := recOf_lt s
    simp only []
    split <;> split
    all_goals
      refine ⟨?_, by frame_simp; try rfl⟩
      constructor
      · intro e r' h
        frame_simp
        grind
      · intro r' e h
        frame_simp
        grind
      · intro r' e h
        frame_simp
        grind


theorem inv_join (s : St) (e1 e2 r1 r2 : Nat) (hi : Inv s) (hr1 : s.recOf e1 = some r1)
    (hr2 : s.recOf e2 = some r2) (hne : r1 ≠ r2)
    (hf : ((s.getRec r1).front == some e1) ≠ ((s.getRec r2).front == some e2)) :
    ∃ s', joinOutrecPaths s e1 e2 = some s' ∧ Inv s' ∧ s'.edgeRec.length = s.edgeRec.length := by
  obtain ⟨hA, hB, hC⟩ := hi
  have hlt := recOf_lt s
  have hp1 := (hA e1 r1 hr1).2.2
  have hp2 := (hA e2 r2 hr2).2.2
  unfold joinOutrecPaths
  simp only [hr1, hr2]
  cases hq1 : (s.getRec r1).pts with
  | nil => exact absurd hq1 hp1
  | cons f1 t1 =>
  cases hq2 : (s.getRec r2).pts with
  | nil => exact absurd hq2 hp2
  | cons f2 t2 =>
  simp only []
  refine ⟨_, rfl, ?_⟩
  split <;> split
  all_goals
    refine ⟨?_, by frame_simp; try rfl⟩
    constructor
    · intro e r' h
      frame_simp
      grind
    · intro r' e h
      frame_simp
      grind
    · intro r' e h
      frame_simp
      grind


theorem rotateLeft_ne_nil {α} (l : List α) (n : Nat) (h : l ≠ []) : l.rotateLeft n ≠ [] := by
  intro h'
  unfold List.rotateLeft at h'
  simp only [] at h'
  split at h'
  · exact h h'
  · rw [List.append_eq_nil_iff] at h'
    have := List.take_append_drop (n % l.length) l
    rw [h'.1, h'.2] at this
    exact h this.symm

theorem inv_succeeded (s : St) (b : Bool) (hi : Inv s) : Inv { s with succeeded := b } := by
  obtain ⟨hA, hB, hC⟩ := hi
  exact ⟨hA, hB, hC⟩

theorem inv_max (s : St) (e1 e2 : Nat) (p : Point64) (t : Bool) (hi : Inv s)
    (hne : e1 ≠ e2) (hh1 : (s.recOf e1).isSome) (hh2 : (s.recOf e2).isSome) :
    ∃ s', addLocalMaxPoly s e1 e2 p t = some s' ∧ Inv s' ∧ s'.edgeRec.length = s.edgeRec.length := by
  obtain ⟨r1, hr1⟩ := Option.isSome_iff_exists.mp hh1
  obtain ⟨r2, hr2⟩ := Option.isSome_iff_exists.mp hh2
  unfold addLocalMaxPoly
  simp only [isFront, hr1, hr2, Option.map_some]
  split
  · exact ⟨_, rfl, inv_succeeded s false hi, rfl⟩
  · next hf =>
    obtain ⟨l, pos, hadd, hl⟩ := addOutPt_spec s e1 r1 p hi hr1
    have hi1 := inv_setPts s r1 l hi hl
    simp only [hadd]
    generalize hs1 : s.setRec r1 { s.getRec r1 with pts := l } = s1 at hi1
    have hrec : ∀ e, s1.recOf e = s.recOf e := by intro e; rw [← hs1]; rfl
    have hlen : s1.edgeRec.length = s.edgeRec.length := by rw [← hs1]; rfl
    have hfr : ∀ r, (s1.getRec r).front = (s.getRec r).front := by
      intro r; rw [← hs1, getRec_setRec]; split
      · next h => rw [h.1]
      · rfl
    simp only [hrec, hr1, hr2, Option.getD_some]
    split
    · next heq =>
      simp only [beq_iff_eq, Option.some.injEq] at heq
      subst heq
      have hp : (s1.getRec r1).pts ≠ [] := (hi1.hot e1 r1 (by rw [hrec, hr1])).2.2
      have hi2 := inv_setPts s1 r1 _ hi1 (rotateLeft_ne_nil _ pos hp)
      have hlen2 : (s1.setRec r1 { s1.getRec r1 with pts := (s1.getRec r1).pts.rotateLeft pos }).edgeRec.length
          = s.edgeRec.length := by rw [← hlen]; rfl
      generalize s1.setRec r1 { s1.getRec r1 with pts := (s1.getRec r1).pts.rotateLeft pos } = s2 at hi2 hlen2 ⊢
      have hsame : ∀ s3, Same s2 s3 → ∃ s', some (uncouple s3 e1) = some s' ∧ Inv s' ∧
          s'.edgeRec.length = s.edgeRec.length := by
        intro s3 h3
        have := inv_uncouple s3 e1 (inv_of_same s2 s3 h3 hi2)
        exact ⟨_, rfl, this.1, by rw [this.2, h3.1, hlen2]⟩
      apply hsame
      split
      · split
        · exact Same.setOwnerField s2 r1 none
        · exact Same.setOwner s2 _ _
      · exact Same.refl s2
    · next hne12 =>
      simp only [beq_iff_eq, Option.some.injEq] at hne12
      rw [← hlen]
      split
      · exact inv_join s1 e1 e2 r1 r2 hi1 (by rw [hrec, hr1]) (by rw [hrec, hr2]) hne12 (by
          rw [hfr, hfr]; simpa using hf)
      · exact inv_join s1 e2 e1 r2 r1 hi1 (by rw [hrec, hr2]) (by rw [hrec, hr1]) (Ne.symm hne12) (by
          rw [hfr, hfr]; intro h; exact hf (by simpa using h.symm))



theorem getLast_aux (f a : Point64) (l : List Point64) (h) : (f :: (l ++ [a])).getLast h = a := by
  have : f :: (l ++ [a]) = (f :: l) ++ [a] := rfl
  simp only [this, List.getLast_concat]

theorem swap_edgeRec_length (s : St) (e1 e2 : Nat) :
    (swapOutrecs s e1 e2).edgeRec.length = s.edgeRec.length := by
  unfold swapOutrecs
  simp only []
  split
  · rfl
  · cases s.recOf e1 <;> cases s.recOf e2 <;> simp

theorem inv_init (n : Nat) : Inv { edgeRec := List.replicate n none } := by
  have hrec : ∀ e, ({ edgeRec := List.replicate n none } : St).recOf e = none := by
    intro e
    simp only [St.recOf, List.getD_eq_getElem?_getD, List.getElem?_replicate]
    split <;> rfl
  have hget : ∀ r, ({ edgeRec := List.replicate n none } : St).getRec r = {} := by
    intro r
    simp [St.getRec]
  constructor
  · intro e r h; rw [hrec] at h; cases h
  · intro r e h; rw [hget] at h; cases h
  · intro r e h; rw [hget] at h; cases h

theorem step_spec (t : Bool) (s : St) (op : Op) (hi : Inv s) (hv : validB s op = true) :
    ∃ s', step t s op = some s' ∧ Inv s' ∧ s'.edgeRec.length = s.edgeRec.length := by
  cases op with
  | min e1 e2 p isNew =>
    simp only [validB, Bool.and_eq_true, decide_eq_true_eq, bne_iff_ne, ne_eq, Option.isNone_iff_eq_none] at hv
    obtain ⟨⟨⟨⟨h1, h2⟩, hne⟩, hc1⟩, hc2⟩ := hv
    exact ⟨_, rfl, inv_min s e1 e2 p isNew t hi h1 h2 hne hc1 hc2⟩
  | pt e p =>
    simp only [validB, Bool.and_eq_true, decide_eq_true_eq] at hv
    obtain ⟨r, hr⟩ := Option.isSome_iff_exists.mp hv.2
    obtain ⟨l, pos, hadd, hl⟩ := addOutPt_spec s e r p hi hr
    refine ⟨_, by simp only [step, hadd, Option.map_some], inv_setPts s r l hi hl, rfl⟩
  | max e1 e2 p =>
    simp only [validB, Bool.and_eq_true, decide_eq_true_eq, bne_iff_ne, ne_eq] at hv
    obtain ⟨⟨⟨⟨h1, h2⟩, hne⟩, hc1⟩, hc2⟩ := hv
    exact inv_max s e1 e2 p t hi hne hc1 hc2
  | swap e1 e2 =>
    simp only [validB, Bool.and_eq_true, decide_eq_true_eq, bne_iff_ne, ne_eq] at hv
    obtain ⟨⟨h1, h2⟩, hne⟩ := hv
    exact ⟨_, rfl, inv_swap s e1 e2 hi h1 h2 hne, swap_edgeRec_length s e1 e2⟩

/-- a valid operation on a well-coupled state never faults (no nil dereference in `addOutPt`, `isFront`,
`joinOutrecPaths`) … -/
theorem step_total (t : Bool) (s : St) (op : Op) (hi : invB s = true) (hv : validB s op = true) :
    ∃ s', step t s op = some s' := by
  obtain ⟨s', h, _⟩ := step_spec t s op ((invB_iff s).mp hi) hv
  exact ⟨s', h⟩

/-- … and leaves the state well coupled, with the same edges -/
theorem step_inv (t : Bool) (s s' : St) (op : Op) (hi : invB s = true) (hv : validB s op = true)
    (h : step t s op = some s') : invB s' = true ∧ s'.edgeRec.length = s.edgeRec.length := by
  obtain ⟨s'', h', hi', hl⟩ := step_spec t s op ((invB_iff s).mp hi) hv
  rw [h] at h'
  cases h'
  exact ⟨(invB_iff _).mpr hi', hl⟩

/-- every state reached from the empty table by operations that are valid when they are applied -/
inductive Reachable (t : Bool) (n : Nat) : St → Prop
  | init : Reachable t n { edgeRec := List.replicate n none }
  | step (s s' : St) (op : Op) : Reachable t n s → validB s op = true → step t s op = some s' → Reachable t n s'

theorem reachable_inv (t : Bool) (n : Nat) (s : St) (h : Reachable t n s) :
    invB s = true ∧ s.edgeRec.length = n := by
  induction h with
  | init => exact ⟨(invB_iff _).mpr (inv_init n), by simp⟩
  | step s s' op _ hv hs ih =>
    have := step_inv t s s' op ih.1 hv hs
    exact ⟨this.1, this.2.trans ih.2⟩

theorem reachable_total (t : Bool) (n : Nat) (s : St) (h : Reachable t n s) (op : Op) (hv : validB s op = true) :
    ∃ s', step t s op = some s' := by
  exact step_total t s op (reachable_inv t n s h).1 hv

/-- `addOutPt` at the front tip: the polyline grows at its head (unless the point repeats the tip) -/
theorem addPt_front_path (f : Point64) (rest : List Point64) (p : Point64) :
    path (addPtRing (f :: rest) true p).1 = if p = f then path (f :: rest) else p :: path (f :: rest) := by
  by_cases h : p = f <;> simp [addPtRing, path, h]

/-- `addOutPt` at the back tip: the polyline grows at its end (unless the point repeats the tip) -/
theorem addPt_back_path (f : Point64) (rest : List Point64) (p : Point64) :
    path (addPtRing (f :: rest) false p).1 =
      if p = (path (f :: rest)).getLast (by simp [path]) then path (f :: rest) else path (f :: rest) ++ [p] := by
  cases rest with
  | nil => by_cases h : p = f <;> simp [addPtRing, path, h]
  | cons a t => by_cases h : p = a <;> simp [addPtRing, path, h, getLast_aux]

/-- the point `addOutPt` returns is the tip it wrote: position 0 is the front tip, position 1 the back tip -/
theorem addPt_result (f : Point64) (rest : List Point64) (toFront : Bool) (p : Point64) :
    ((addPtRing (f :: rest) toFront p).1.rotateLeft (addPtRing (f :: rest) toFront p).2).head? = some p := by
  cases toFront
  · cases rest with
    | nil => by_cases h : p = f <;> simp [addPtRing, h, List.rotateLeft]
    | cons a t => by_cases h : p = a <;> simp [addPtRing, h, List.rotateLeft]
  · by_cases h : p = f <;> simp [addPtRing, h, List.rotateLeft]

/-- `joinOutrecPaths` splices the two polylines tip to tip: the second record's polyline is put in front
of the first's when the first edge is its record's front edge, behind it otherwise; the second record is
emptied and both edges become cold; no other record's ring changes -/
theorem join_paths (s s' : St) (e1 e2 r1 r2 : Nat) (h1 : s.recOf e1 = some r1) (h2 : s.recOf e2 = some r2)
    (hne : r1 ≠ r2) (hr1 : r1 < s.recs.length) (hr2 : r2 < s.recs.length)
    (h : joinOutrecPaths s e1 e2 = some s') :
    path (s'.getRec r1).pts =
      (if (s.getRec r1).front = some e1 then path (s.getRec r2).pts ++ path (s.getRec r1).pts
       else path (s.getRec r1).pts ++ path (s.getRec r2).pts) ∧
    (s'.getRec r2).pts = [] ∧
    (∀ r, r ≠ r1 → r ≠ r2 → (s'.getRec r).pts = (s.getRec r).pts) := by
  unfold joinOutrecPaths at h
  simp only [h1, h2] at h
  split at h
  · next f1 t1 f2 t2 hq1 hq2 =>
    simp only [Option.some.injEq] at h
    subst h
    simp only [getRec_setEdge, setOwner_pts]
    have hne' : r2 ≠ r1 := Ne.symm hne
    split
    · next hf =>
      simp only [beq_iff_eq] at hf
      simp only [hf, if_true]
      split
      all_goals
        refine ⟨?_, ?_, ?_⟩
        · simp [getRec_setRec_ne, getRec_setRec_same, hne', hr1, hq1, hq2, path]
        · simp [getRec_setRec_same, hr2]
        · intro r hrr1 hrr2
          simp [getRec_setRec_ne, Ne.symm hrr1, Ne.symm hrr2]
    · next hf =>
      simp only [beq_iff_eq] at hf
      simp only [hf, if_false]
      split
      all_goals
        refine ⟨?_, ?_, ?_⟩
        · simp [getRec_setRec_ne, getRec_setRec_same, hne', hr1, hq1, hq2, path]
        · simp [getRec_setRec_same, hr2]
        · intro r hrr1 hrr2
          simp [getRec_setRec_ne, Ne.symm hrr1, Ne.symm hrr2]
  · cases h

end Proofs.Ring
