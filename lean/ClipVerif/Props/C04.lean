import ClipVerif.Proofs.C04
/-
C04 — PolyTree results are the same polygons, correctly nested.  Proved: IsHole as a function of the
nesting level (generated from `PolyPathBase.IsHole`, with the parent walk `Level()` as a parameter):
levels alternate filled boundary / hole by construction.  Ownership correction (which record
becomes whose child) is explored by the search.
-/
namespace C04
open Gen

theorem isHole_iff (level : Int) (h : 0 ≤ level) :
    PolyPathBase_IsHole level = true ↔ (level ≠ 0 ∧ level % 2 = 0) := by
  -- holds for every integer level (64-bit wrap-around preserves parity); `h` is not needed
  have _ := h
  exact Proofs.C04.isHole_iff level

/-- a child of a node at level ≥ 1 has the opposite hole status; top-level polygons are not holes -/
theorem isHole_alternates (level : Int) (h : 1 ≤ level) :
    PolyPathBase_IsHole (level + 1) = !PolyPathBase_IsHole level := by
  exact Proofs.C04.isHole_alternates level h

theorem top_level_not_hole : PolyPathBase_IsHole 1 = false ∧ PolyPathBase_IsHole 0 = false := by
  exact Proofs.C04.top_level_not_hole

end C04
