import ClipVerif.Gen.Funcs
import ClipVerif.Spec.Wind
/-
Hand model of `areaOP` (engine.go): the shoelace accumulator over an output ring, in the order
and with the operand forms of the code — every term is
`float64(prev.Y + cur.Y) * float64(prev.X - cur.X)` with the sum and the difference taken in
int64 first, accumulated from the ring's first point, halved at the end.  The ring is given as
the list of its points in `next` order (what the verif hook `VAreaOP` builds).
Tie: models-corr probe `areaop` compares float bit patterns.
-/
namespace Model
open Gen

def areaOPTerm (prev cur : Point64) : Float :=
  Int64.toFloat (prev.Y + cur.Y) * Int64.toFloat (prev.X - cur.X)

/-- accumulate over consecutive pairs, `prev` being the point before the head of the list -/
def areaOPAcc : Point64 → List Point64 → Float → Float
  | _, [], acc => acc
  | prev, cur :: rest, acc => areaOPAcc cur rest (acc + areaOPTerm prev cur)

def areaOP (ring : List Point64) : Float :=
  match ring.getLast? with
  | none => 0.0
  | some last => areaOPAcc last ring 0.0 * 0.5

/-- the exact counterpart: the same accumulation over integers (twice the area) -/
def areaOPExactAcc : IPt → List IPt → Int → Int
  | _, [], acc => acc
  | prev, cur :: rest, acc => areaOPExactAcc cur rest (acc + (prev.y + cur.y) * (prev.x - cur.x))

def areaOPExact2 (ring : List IPt) : Int :=
  match ring.getLast? with
  | none => 0
  | some last => areaOPExactAcc last ring 0

end Model
