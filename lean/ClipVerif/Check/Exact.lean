import ClipVerif.Spec.Wind
/-
Exact-arithmetic judges for the measure / predicate properties (C14, C15, C16).
Everything here is plain unbounded `Int` / `Rat` arithmetic.
-/
namespace Exact
open Spec

def crossI (a b c : IPt) : Int := (b.x - a.x) * (c.y - b.y) - (b.y - a.y) * (c.x - b.x)

def collinear (a b c : IPt) : Bool := crossI a b c == 0

def qOf (p : IPt) : QPt := ⟨p.x, p.y⟩

/-- 0 = IsOn, 1 = IsInside, 2 = IsOutside (library numbering); even-odd sense -/
def pip (pt : IPt) (poly : List IPt) : Nat :=
  if onPath poly (qOf pt) then 0
  else if wind poly (qOf pt) % 2 != 0 then 1 else 2

/-- polygon contained in one horizontal line -/
def flat (poly : List IPt) : Bool :=
  match poly with
  | [] => true
  | p :: rest => rest.all (fun q => q.y == p.y)

def minL (l : List Int) : Int := l.foldl min (l.headD 0)
def maxL (l : List Int) : Int := l.foldl max (l.headD 0)

/-- (left, top, right, bottom) -/
def bounds (path : List IPt) : Int × Int × Int × Int :=
  (minL (path.map (·.x)), minL (path.map (·.y)), maxL (path.map (·.x)), maxL (path.map (·.y)))

end Exact
