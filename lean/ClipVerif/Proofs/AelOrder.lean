import ClipVerif.Model.AelOrder
import ClipVerif.Model.Conv
import ClipVerif.Proofs.C14
import Mathlib.Tactic.Ring
import Mathlib.Tactic.Linarith
import Mathlib.Tactic.FieldSimp
import Mathlib.Algebra.Order.Field.Rat
/-
Proofs about `Model.AelOrder` (order of the active-edge list).
-/
namespace Proofs.AelOrder
open Gen Model

theorem by_curX (r n : AelEdge) (h : n.curX ≠ r.curX) :
    isValidAelOrder r n = decide (n.curX.toInt > r.curX.toInt) := by
  unfold isValidAelOrder
  have h1 : (n.curX != r.curX) = true := by simpa using h
  rw [if_pos h1]
  simp only [gt_iff_lt, Int64.lt_iff_toInt_lt]

theorem walk_spec (ae : AelEdge) : ∀ (l pre pre' post : List AelEdge),
    aelWalk ae pre l = (pre', post) →
    ∃ taken, l = taken ++ post ∧ pre' = taken.reverse ++ pre ∧
      (∀ e ∈ taken, isValidAelOrder e ae = true) ∧
      (∀ x, post.head? = some x → isValidAelOrder x ae = false) := by
  intro l
  induction l with
  | nil =>
    intro pre pre' post h
    simp only [aelWalk, Prod.mk.injEq] at h
    obtain ⟨rfl, rfl⟩ := h
    exact ⟨[], by simp⟩
  | cons x rest ih =>
    intro pre pre' post h
    simp only [aelWalk] at h
    by_cases hv : isValidAelOrder x ae = true
    · rw [if_pos hv] at h
      obtain ⟨taken, h1, h2, h3, h4⟩ := ih _ _ _ h
      refine ⟨x :: taken, by simp [h1], by simp [h2], ?_, h4⟩
      intro e he
      rcases List.mem_cons.1 he with rfl | he
      · exact hv
      · exact h3 e he
    · rw [if_neg hv] at h
      simp only [Prod.mk.injEq] at h
      obtain ⟨rfl, rfl⟩ := h
      refine ⟨[], by simp, by simp, by simp, ?_⟩
      intro y hy
      simp at hy
      subst hy
      simpa using hv

theorem position (ael : List AelEdge) (ae : AelEdge) (res : List AelEdge)
    (h : insertLeftEdge ael ae = some res) :
    ∃ l1 l2, ael = l1 ++ l2 ∧ res = l1 ++ ae :: l2 ∧
      ((∀ e ∈ l1, isValidAelOrder e ae = true) ∧ (∀ x, l2.head? = some x → isValidAelOrder x ae = false)
       ∨ (∃ l0 j x, l1 = l0 ++ [j, x] ∧ j.joinRight = true ∧ (∀ e ∈ l0 ++ [j], isValidAelOrder e ae = true) ∧
            isValidAelOrder x ae = false)) := by
  cases ael with
  | nil =>
    simp only [insertLeftEdge, Option.some.injEq] at h
    subst h
    exact ⟨[], [], by simp, by simp, Or.inl ⟨by simp, by simp⟩⟩
  | cons hd t =>
    simp only [insertLeftEdge] at h
    by_cases hv : isValidAelOrder hd ae = true
    · simp only [hv, Bool.not_true, Bool.false_eq_true, if_false] at h
      rcases hw : aelWalk ae [hd] t with ⟨pre, post⟩
      rw [hw] at h
      obtain ⟨taken, h1, h2, h3, h4⟩ := walk_spec ae _ _ _ _ hw
      simp only at h
      cases pre with
      | nil => simp at h
      | cons ae2 pre0 =>
        simp only at h
        have hrev : (ae2 :: pre0).reverse = hd :: taken := by
          rw [h2]; simp
        have hall : ∀ e ∈ hd :: taken, isValidAelOrder e ae = true := by
          intro e he
          rcases List.mem_cons.1 he with rfl | he
          · exact hv
          · exact h3 e he
        by_cases hjr : ae2.joinRight = true
        · rw [if_pos hjr] at h
          cases post with
          | nil => simp at h
          | cons x post' =>
            simp only [Option.some.injEq] at h
            refine ⟨(ae2 :: pre0).reverse ++ [x], post', ?_, ?_, Or.inr ⟨pre0.reverse, ae2, x, ?_, hjr, ?_, ?_⟩⟩
            · rw [hrev, h1]; simp
            · rw [← h]; simp
            · simp
            · intro e he
              apply hall
              rw [← hrev]
              simpa using he
            · exact h4 x (by simp)
        · rw [if_neg hjr] at h
          simp only [Option.some.injEq] at h
          refine ⟨(ae2 :: pre0).reverse, post, ?_, ?_, Or.inl ⟨?_, h4⟩⟩
          · rw [hrev, h1]; simp
          · rw [← h]
          · rw [hrev]; exact hall
    · have hv' : isValidAelOrder hd ae = false := by simpa using hv
      simp only [hv', Bool.not_false, if_true, Option.some.injEq] at h
      subst h
      refine ⟨[], hd :: t, by simp, by simp, Or.inl ⟨by simp, ?_⟩⟩
      intro x hx
      simp at hx
      subst hx
      exact hv'

theorem total (ael : List AelEdge) (ae : AelEdge)
    (hj : ∀ l1 j, ael = l1 ++ [j] → j.joinRight = false) :
    ∃ res, insertLeftEdge ael ae = some res := by
  cases ael with
  | nil => exact ⟨[ae], rfl⟩
  | cons hd t =>
    simp only [insertLeftEdge]
    by_cases hv : isValidAelOrder hd ae = true
    · simp only [hv, Bool.not_true, Bool.false_eq_true, if_false]
      rcases hw : aelWalk ae [hd] t with ⟨pre, post⟩
      obtain ⟨taken, h1, h2, h3, h4⟩ := walk_spec ae _ _ _ _ hw
      simp only
      cases pre with
      | nil => simp at h2
      | cons ae2 pre0 =>
        simp only
        have hrev : (ae2 :: pre0).reverse = hd :: taken := by
          rw [h2]; simp
        by_cases hjr : ae2.joinRight = true
        · rw [if_pos hjr]
          cases post with
          | nil =>
            exfalso
            have : hd :: t = pre0.reverse ++ [ae2] := by
              rw [h1, List.append_nil, ← hrev]; simp
            have := hj _ _ this
            rw [hjr] at this
            exact Bool.noConfusion this
          | cons x post' => exact ⟨_, rfl⟩
        · rw [if_neg hjr]
          exact ⟨_, rfl⟩
    · have hv' : isValidAelOrder hd ae = false := by simpa using hv
      simp only [hv', Bool.not_false, if_true]
      exact ⟨_, rfl⟩

theorem valid_true_le (e ae : AelEdge) (h : isValidAelOrder e ae = true) :
    e.curX.toInt ≤ ae.curX.toInt := by
  by_cases hc : ae.curX = e.curX
  · rw [hc]
  · rw [by_curX e ae hc] at h
    have := of_decide_eq_true h
    omega

theorem valid_false_le (x ae : AelEdge) (h : isValidAelOrder x ae = false) :
    ae.curX.toInt ≤ x.curX.toInt := by
  by_cases hc : ae.curX = x.curX
  · rw [hc]
  · rw [by_curX x ae hc] at h
    have := of_decide_eq_false h
    omega

theorem sorted (ael : List AelEdge) (ae : AelEdge) (res : List AelEdge)
    (hs : ael.Pairwise (fun a b => a.curX.toInt ≤ b.curX.toInt))
    (hj : ∀ e ∈ ael, e.joinRight = false)
    (h : insertLeftEdge ael ae = some res) :
    res.Pairwise (fun a b => a.curX.toInt ≤ b.curX.toInt) := by
  obtain ⟨l1, l2, h1, h2, h3⟩ := position ael ae res h
  rcases h3 with ⟨ha, hb⟩ | ⟨l0, j, x, e1, e2, _, _⟩
  · subst h1 h2
    rw [List.pairwise_append] at hs ⊢
    obtain ⟨s1, s2, s3⟩ := hs
    have hl2 : ∀ b ∈ l2, ae.curX.toInt ≤ b.curX.toInt := by
      cases l2 with
      | nil => simp
      | cons x l2' =>
        have hx := valid_false_le x ae (hb x (by simp))
        intro b hb'
        rcases List.mem_cons.1 hb' with rfl | hb'
        · exact hx
        · have := (List.pairwise_cons.1 s2).1 b hb'
          omega
    refine ⟨s1, List.pairwise_cons.2 ⟨hl2, s2⟩, ?_⟩
    intro a ha' b hb'
    have hale := valid_true_le a ae (ha a ha')
    rcases List.mem_cons.1 hb' with rfl | hb'
    · exact hale
    · have := hl2 b hb'
      omega
  · exfalso
    have : j ∈ ael := by rw [h1, e1]; simp
    have := hj j this
    rw [e2] at this
    exact Bool.noConfusion this

theorem valid_iff_cross (r n : AelEdge)
    (hb : r.bot = n.bot) (hx : r.curX = n.curX)
    (hrb : r.bot.inRange) (hrt : r.top.inRange) (hnt : n.top.inRange)
    (hd : crossZ r.top n.bot n.top ≠ 0) :
    isValidAelOrder r n = true ↔ crossZ r.top n.bot n.top < 0 := by
  obtain ⟨c0, c1, _⟩ := Proofs.C14.crossProduct_sign r.top n.bot n.top hrt (hb ▸ hrb) hnt
  have hne : CrossProduct r.top n.bot n.top ≠ 0 := fun h => hd (c0.1 h)
  unfold isValidAelOrder
  have h1 : ¬ ((n.curX != r.curX) = true) := by simp [hx]
  rw [if_neg h1]
  simp only
  rw [if_pos hne]
  simp only [decide_eq_true_eq]
  exact c1

theorem rat_key (b1 b2 rx ry nx ny y : Rat) (hA : ry < b2) (hB : ny < b2) (ht : y < b2) :
    (b1 + (rx - b1) * (y - b2) / (ry - b2) < b1 + (nx - b1) * (y - b2) / (ny - b2)) ↔
      (b1 - rx) * (ny - b2) - (b2 - ry) * (nx - b1) < 0 := by
  have hA' : ry - b2 < 0 := by linarith
  have hB' : ny - b2 < 0 := by linarith
  have ht' : y - b2 < 0 := by linarith
  have hA0 : ry - b2 ≠ 0 := ne_of_lt hA'
  have hB0 : ny - b2 ≠ 0 := ne_of_lt hB'
  have hAB : 0 < (ry - b2) * (ny - b2) := mul_pos_of_neg_of_neg hA' hB'
  have e : (b1 + (nx - b1) * (y - b2) / (ny - b2)) - (b1 + (rx - b1) * (y - b2) / (ry - b2)) =
      (y - b2) * ((b1 - rx) * (ny - b2) - (b2 - ry) * (nx - b1)) / ((ry - b2) * (ny - b2)) := by
    field_simp
    ring
  rw [← sub_pos, e]
  constructor
  · intro h
    by_contra hc
    have hc' : 0 ≤ (b1 - rx) * (ny - b2) - (b2 - ry) * (nx - b1) := le_of_not_gt hc
    have : (y - b2) * ((b1 - rx) * (ny - b2) - (b2 - ry) * (nx - b1)) ≤ 0 :=
      mul_nonpos_of_nonpos_of_nonneg (le_of_lt ht') hc'
    have := div_nonpos_of_nonpos_of_nonneg this (le_of_lt hAB)
    linarith
  · intro h
    exact div_pos (mul_pos_of_neg_of_neg ht' h) hAB

theorem geometric (r n : AelEdge)
    (hb : r.bot = n.bot) (hx : r.curX = n.curX)
    (hrb : r.bot.inRange) (hrt : r.top.inRange) (hnt : n.top.inRange)
    (hr : r.top.Y.toInt < r.bot.Y.toInt) (hn : n.top.Y.toInt < n.bot.Y.toInt)
    (hd : crossZ r.top n.bot n.top ≠ 0) :
    isValidAelOrder r n = true ↔
      ∀ y : Rat, (r.top.Y.toInt : Rat) ≤ y → (n.top.Y.toInt : Rat) ≤ y → y < (n.bot.Y.toInt : Rat) →
        (r.bot.X.toInt : Rat) + ((r.top.X.toInt : Rat) - r.bot.X.toInt) * (y - r.bot.Y.toInt) / ((r.top.Y.toInt : Rat) - r.bot.Y.toInt)
        < (n.bot.X.toInt : Rat) + ((n.top.X.toInt : Rat) - n.bot.X.toInt) * (y - n.bot.Y.toInt) / ((n.top.Y.toInt : Rat) - n.bot.Y.toInt) := by
  rw [valid_iff_cross r n hb hx hrb hrt hnt hd]
  rw [hb] at hr ⊢
  have hr' : (r.top.Y.toInt : Rat) < (n.bot.Y.toInt : Rat) := by exact_mod_cast hr
  have hn' : (n.top.Y.toInt : Rat) < (n.bot.Y.toInt : Rat) := by exact_mod_cast hn
  have hc : crossZ r.top n.bot n.top < 0 ↔
      ((n.bot.X.toInt : Rat) - r.top.X.toInt) * ((n.top.Y.toInt : Rat) - n.bot.Y.toInt)
        - ((n.bot.Y.toInt : Rat) - r.top.Y.toInt) * ((n.top.X.toInt : Rat) - n.bot.X.toInt) < 0 := by
    rw [← Int.cast_lt (R := Rat)]
    unfold crossZ
    push_cast
    exact Iff.rfl
  rw [hc]
  constructor
  · intro h y _ _ hy
    exact (rat_key _ _ _ _ _ _ y hr' hn' hy).2 h
  · intro h
    rcases le_total (r.top.Y.toInt : Rat) (n.top.Y.toInt : Rat) with hle | hle
    · exact (rat_key _ _ _ _ _ _ _ hr' hn' hn').1 (h _ hle (le_refl _) hn')
    · exact (rat_key _ _ _ _ _ _ _ hr' hn' hr').1 (h _ (le_refl _) hle hr')

end Proofs.AelOrder
