import ClipVerif.Proofs.PIP
import ClipVerif.Model.PIPOp
/-
Correctness of the hand model of `pointInOpPolygon` (`Model.pointInOpPolygon`) against the
specification layer, by reduction to `Proofs.PIP.ring_correct`.
-/
namespace Proofs.PIPOp
open Gen Model Spec Proofs.PIP Proofs.C17

theorem opStepVal_eq : @Model.opStepVal = @Proofs.PIP.stepVal := rfl

theorem opWalk_eq (pt : Point64) : ∀ (l : List Point64) (prev : Point64) (a : Bool) (v : Nat),
    Model.opWalk pt prev a v l = Proofs.PIP.walk pt prev a v l := by
  intro l
  induction l with
  | nil => intro prev a v; rfl
  | cons c l ih =>
    intro prev a v
    simp only [Model.opWalk, Proofs.PIP.walk, opStepVal_eq, ih]
    cases stepVal pt prev c a v <;> rfl

theorem rotateLeft_eq (L : List Point64) (s : Nat) (h3 : 3 ≤ L.length) (hs : s < L.length) :
    L.rotateLeft s = L[s]! :: (L.drop (s+1) ++ L.take s) := by
  unfold List.rotateLeft
  simp only []
  rw [if_neg (by omega), Nat.mod_eq_of_lt hs, drop_cons L s hs]
  rfl

theorem pipop_eq_closing (pt : Point64) (L : List Point64) (h3 : 3 ≤ L.length) (s : Nat)
    (hs : s < L.length) (hf : L.findIdx? (fun q => q.Y != pt.Y) = some s) :
    Model.pointInOpPolygon pt L =
      closing pt L[s]! ((L.drop (s+1) ++ L.take s).getLastD L[s]!) (decide (L[s]!.Y < pt.Y))
        (walk pt L[s]! (decide (L[s]!.Y < pt.Y)) 0 (L.drop (s+1) ++ L.take s)) := by
  unfold Model.pointInOpPolygon
  rw [if_neg (by omega), hf]
  have hh : ∀ (x : Point64) (l : List Point64), (x :: l).head! = x := fun _ _ => rfl
  simp only [rotateLeft_eq L s h3 hs, hh, List.tail_cons, opWalk_eq]
  cases walk pt L[s]! (decide (L[s]!.Y < pt.Y)) 0 (L.drop (s+1) ++ L.take s) with
  | none => rfl
  | some av => obtain ⟨a, v⟩ := av; rfl

theorem pointInOpPolygon_correct (pt : Point64) (ring : List Point64)
    (hp : pt.inRange) (hr : ∀ q ∈ ring, q.inRange) (h3 : 3 ≤ ring.length)
    (hflat : ∃ q ∈ ring, q.Y ≠ pt.Y) :
    Model.pointInOpPolygon pt ring =
      (if Spec.onPath (pathToI ring) ⟨(pt.X.toInt : Rat), (pt.Y.toInt : Rat)⟩ then 0
       else if Spec.wind (pathToI ring) ⟨(pt.X.toInt : Rat), (pt.Y.toInt : Rat)⟩ % 2 ≠ 0 then 1 else 2) := by
  have hex : ∃ x, x ∈ ring ∧ (fun q : Point64 => q.Y != pt.Y) x = true := by
    obtain ⟨q, hq, hqy⟩ := hflat
    exact ⟨q, hq, by simpa using hqy⟩
  have hf := List.findIdx?_eq_some_of_exists hex
  generalize List.findIdx (fun q : Point64 => q.Y != pt.Y) ring = start at hf
  obtain ⟨hs, hps, _⟩ := List.findIdx?_eq_some_iff_getElem.1 hf
  have hgs : ring[start]! = ring[start] := by simp [hs]
  have hne : ring[start]!.Y ≠ pt.Y := by
    rw [hgs]; simpa using hps
  have heq := pipop_eq_closing pt ring h3 start hs hf
  have hmem : ring[start]! ∈ ring := by
    rw [hgs]; exact List.getElem_mem hs
  have hrest : ∀ q ∈ ring.drop (start+1) ++ ring.take start, q.inRange := by
    intro q hq
    rcases List.mem_append.1 hq with h | h
    · exact hr q (List.mem_of_mem_drop h)
    · exact hr q (List.mem_of_mem_take h)
  have hR := ring_correct pt ring[start]! (ring.drop (start+1) ++ ring.take start) hp (hr _ hmem) hrest hne
  have hq : (⟨(pt.X.toInt : Rat), (pt.Y.toInt : Rat)⟩ : QPt) = qof pt.toI := rfl
  have hrot : ring[start]! :: (ring.drop (start+1) ++ ring.take start) = ring.drop start ++ ring.take start := by
    rw [drop_cons ring start hs]; rfl
  have hsplit : pathToI ring = (pathToI ring).take start ++ (pathToI ring).drop start :=
    (List.take_append_drop _ _).symm
  have hmap : pathToI (ring.drop start ++ ring.take start) =
      (pathToI ring).drop start ++ (pathToI ring).take start := by
    simp only [pathToI, List.map_append, List.map_drop, List.map_take]
  rw [heq, hR, hq, hrot, hmap, wind_rot]
  have := onPath_append_comm pt.toI ((pathToI ring).take start) ((pathToI ring).drop start)
  rw [← hsplit] at this
  simp only [this]

theorem pointInOpPolygon_degenerate (pt : Point64) (ring : List Point64)
    (h : ring.length < 3 ∨ ∀ q ∈ ring, q.Y = pt.Y) :
    Model.pointInOpPolygon pt ring = 2 := by
  unfold Model.pointInOpPolygon
  by_cases hl : ring.length < 3
  · rw [if_pos hl]
  · rw [if_neg hl]
    rcases h with h | h
    · exact absurd h hl
    · have : ring.findIdx? (fun q => q.Y != pt.Y) = none := by
        rw [List.findIdx?_eq_none_iff]
        intro x hx
        simp [h x hx]
      rw [this]

end Proofs.PIPOp
