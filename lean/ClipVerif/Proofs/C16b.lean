import ClipVerif.Proofs.C16
/-
C16b — post-condition of the `SimplifyPath` removal loop (`Model.simplifyFinal`).
Cyclic-order characterisation of `getNext`/`getPrior` (`Gap`), the loop invariant (`Inv`: the `dsq`
cache holds the distance of every retained vertex from the line through its retained neighbours),
its preservation by `simplifyStep`, and the exit analysis.
-/
namespace Proofs.C16b
open Gen Model

/-! ### array helpers -/

theorem get_set!_self {α} [Inhabited α] (xs : Array α) (i : Nat) (v : α) (h : i < xs.size) :
    (xs.set! i v)[i]! = v := by
  simp [Array.set!_eq_setIfInBounds, h]

theorem get_set!_ne {α} [Inhabited α] (xs : Array α) (i j : Nat) (v : α) (h : i ≠ j) :
    (xs.set! i v)[j]! = xs[j]! := by
  simp [Array.set!_eq_setIfInBounds, getElem!_def, Array.getElem?_setIfInBounds_ne h]

theorem flag_set (fl : Array Bool) (r j : Nat) (hr : r < fl.size) :
    (fl.set! r true)[j]! = true ↔ (j = r ∨ fl[j]! = true) := by
  by_cases h : r = j
  · subst h; rw [get_set!_self fl r true hr]; simp
  · rw [get_set!_ne fl r j true h]
    constructor
    · intro h'; exact Or.inr h'
    · intro h'; rcases h' with h' | h'
      · exact absurd h'.symm h
      · exact h'

/-! ### cyclic gaps -/

/-- every index cyclically strictly between `a` and `b` is flagged -/
def Gap (fl : Array Bool) (high a b : Nat) : Prop :=
  (a < b ∧ ∀ j : Nat, a < j → j < b → fl[j]! = true) ∨
  (b ≤ a ∧ (∀ j : Nat, a < j → j ≤ high → fl[j]! = true) ∧ ∀ j : Nat, j < b → fl[j]! = true)

theorem Gap.mono {fl fl' : Array Bool} {high a b : Nat} (h : Gap fl high a b)
    (hm : ∀ j : Nat, fl[j]! = true → fl'[j]! = true) : Gap fl' high a b := by
  rcases h with ⟨h1, h2⟩ | ⟨h1, h2, h3⟩
  · exact Or.inl ⟨h1, fun j a b => hm j (h2 j a b)⟩
  · exact Or.inr ⟨h1, fun j a b => hm j (h2 j a b), fun j a => hm j (h3 j a)⟩

/-- the end of a gap starting at `a` is unique among unflagged indices -/
theorem Gap.right_unique {fl : Array Bool} {high a b b' : Nat} (h : Gap fl high a b) (h' : Gap fl high a b')
    (hb : b ≤ high) (hb' : b' ≤ high) (ub : fl[b]! = false) (ub' : fl[b']! = false) : b = b' := by
  rcases h with ⟨h1, h2⟩ | ⟨h1, h2, h3⟩ <;> rcases h' with ⟨g1, g2⟩ | ⟨g1, g2, g3⟩
  · rcases Nat.lt_trichotomy b b' with hlt | heq | hgt
    · have := g2 b h1 hlt; simp [ub] at this
    · exact heq
    · have := h2 b' g1 hgt; simp [ub'] at this
  · have := g2 b (by omega) hb; simp [ub] at this
  · have := h2 b' (by omega) hb'; simp [ub'] at this
  · rcases Nat.lt_trichotomy b b' with hlt | heq | hgt
    · have := g3 b hlt; simp [ub] at this
    · exact heq
    · have := h3 b' hgt; simp [ub'] at this

theorem Gap.left_unique {fl : Array Bool} {high a a' b : Nat} (h : Gap fl high a b) (h' : Gap fl high a' b)
    (ha : a ≤ high) (ha' : a' ≤ high) (ua : fl[a]! = false) (ua' : fl[a']! = false) : a = a' := by
  rcases h with ⟨h1, h2⟩ | ⟨h1, h2, h3⟩ <;> rcases h' with ⟨g1, g2⟩ | ⟨g1, g2, g3⟩
  · rcases Nat.lt_trichotomy a a' with hlt | heq | hgt
    · have := h2 a' hlt g1; simp [ua'] at this
    · exact heq
    · have := g2 a hgt h1; simp [ua] at this
  · have := g3 a (by omega); simp [ua] at this
  · have := h3 a' (by omega); simp [ua'] at this
  · rcases Nat.lt_trichotomy a a' with hlt | heq | hgt
    · have := h2 a' hlt ha'; simp [ua'] at this
    · exact heq
    · have := g2 a hgt ha; simp [ua] at this

/-- gaps compose across a flagged index -/
theorem Gap.trans {fl : Array Bool} {high a c b : Nat} (h1 : Gap fl high a c) (h2 : Gap fl high c b)
    (hc : fl[c]! = true) : Gap fl high a b := by
  have key : ∀ j, j = c → fl[j]! = true := fun j e => e ▸ hc
  rcases h1 with ⟨p1, p2⟩ | ⟨p1, p2, p3⟩ <;> rcases h2 with ⟨q1, q2⟩ | ⟨q1, q2, q3⟩
  · refine Or.inl ⟨by omega, fun j h h' => ?_⟩
    rcases Nat.lt_trichotomy j c with x | x | x
    · exact p2 j h x
    · exact key j x
    · exact q2 j x h'
  · by_cases hba : b ≤ a
    · refine Or.inr ⟨hba, fun j h h' => ?_, q3⟩
      rcases Nat.lt_trichotomy j c with x | x | x
      · exact p2 j h x
      · exact key j x
      · exact q2 j x h'
    · exact Or.inl ⟨by omega, fun j h h' => p2 j h (by omega)⟩
  · by_cases hba : b ≤ a
    · refine Or.inr ⟨hba, p2, fun j h => ?_⟩
      rcases Nat.lt_trichotomy j c with x | x | x
      · exact p3 j x
      · exact key j x
      · exact q2 j x h
    · exact Or.inl ⟨by omega, fun j h h' => q2 j (by omega) h'⟩
  · exact Or.inr ⟨by omega, p2, q3⟩

/-! ### `getNext` / `getPrior` produce gaps -/

theorem up_gap (high : Nat) (fl : Array Bool) : ∀ (fuel c : Nat),
    c ≤ getNext.up high fl c fuel ∧ ∀ j, c ≤ j → j < getNext.up high fl c fuel → fl[j]! = true := by
  intro fuel
  induction fuel with
  | zero => intro c; unfold getNext.up; exact ⟨Nat.le_refl _, fun j a b => by omega⟩
  | succ f ih =>
    intro c
    unfold getNext.up
    split
    · rename_i hcond
      have := ih (c + 1)
      refine ⟨by omega, fun j a b => ?_⟩
      by_cases e : j = c
      · subst e; exact hcond.2
      · exact this.2 j (by omega) b
    · exact ⟨Nat.le_refl _, fun j a b => by omega⟩

theorem up0_gap (fl : Array Bool) : ∀ (fuel c : Nat),
    c ≤ getNext.up0 fl c fuel ∧ ∀ j, c ≤ j → j < getNext.up0 fl c fuel → fl[j]! = true := by
  intro fuel
  induction fuel with
  | zero => intro c; unfold getNext.up0; exact ⟨Nat.le_refl _, fun j a b => by omega⟩
  | succ f ih =>
    intro c
    unfold getNext.up0
    split
    · rename_i hcond
      have := ih (c + 1)
      refine ⟨by omega, fun j a b => ?_⟩
      by_cases e : j = c
      · subst e; exact hcond
      · exact this.2 j (by omega) b
    · exact ⟨Nat.le_refl _, fun j a b => by omega⟩

theorem down_gap (fl : Array Bool) : ∀ (fuel c : Nat),
    (∀ j, getPrior.down fl c fuel < j → j ≤ c → fl[j]! = true) ∧
    (c < fuel → fl[getPrior.down fl c fuel]! = true → getPrior.down fl c fuel = 0) := by
  intro fuel
  induction fuel with
  | zero => intro c; unfold getPrior.down; exact ⟨fun j a b => by omega, fun h => by omega⟩
  | succ f ih =>
    intro c
    unfold getPrior.down
    split
    · rename_i hcond
      have := ih (c - 1)
      refine ⟨fun j a b => ?_, fun h => this.2 (by omega)⟩
      by_cases e : j = c
      · subst e; exact hcond.2
      · exact this.1 j a (by omega)
    · rename_i hcond
      refine ⟨fun j a b => by omega, fun _ hfl => ?_⟩
      by_cases h0 : c > 0
      · exact absurd ⟨h0, hfl⟩ hcond
      · omega

theorem downH_gap (fl : Array Bool) : ∀ (fuel c : Nat),
    ∀ j, getPrior.downH fl c fuel < j → j ≤ c → fl[j]! = true := by
  intro fuel
  induction fuel with
  | zero => intro c; unfold getPrior.downH; exact fun j a b => by omega
  | succ f ih =>
    intro c
    unfold getPrior.downH
    split
    · rename_i hcond
      have := ih (c - 1)
      intro j a b
      by_cases e : j = c
      · subst e; exact hcond
      · exact this j a (by omega)
    · exact fun j a b => by omega

theorem getNext_gap (c high : Nat) (fl : Array Bool) (hc : c ≤ high)
    (hex : ∃ i, i ≤ high ∧ fl[i]! = false) : Gap fl high c (getNext c high fl) := by
  have hu := (Proofs.C16.getNext_unflagged c high fl hc hex).2
  obtain ⟨i, hi, hfi⟩ := hex
  unfold getNext at hu ⊢
  simp only at hu ⊢
  have h1 := Proofs.C16.up_spec high fl (high + 2) (c + 1) (by omega) (by omega)
  have h2 := up_gap high fl (high + 2) (c + 1)
  split
  · rename_i hle
    exact Or.inl ⟨by omega, fun j a b => h2.2 j (by omega) b⟩
  · rename_i hnle
    rw [if_neg hnle] at hu
    have h3 := up0_gap fl (high + 2) 0
    have hall : ∀ j, c < j → j ≤ high → fl[j]! = true := fun j a b => h2.2 j (by omega) (by omega)
    refine Or.inr ⟨?_, hall, fun j a => h3.2 j (by omega) a⟩
    have h4 := (Proofs.C16.up0_spec fl (high + 2) 0 i (by omega) hfi (by omega)).1
    apply Nat.le_of_not_lt
    intro hlt
    have := hall _ hlt (by omega)
    simp [hu] at this

theorem getPrior_gap (c high : Nat) (fl : Array Bool) (hc : c ≤ high)
    (hex : ∃ i, i ≤ high ∧ fl[i]! = false) : Gap fl high (getPrior c high fl) c := by
  have hu := (Proofs.C16.getPrior_unflagged c high fl hc hex).2
  obtain ⟨i, hi, hfi⟩ := hex
  unfold getPrior at hu ⊢
  simp only at hu ⊢
  have hc0 : (if c = 0 then high else c - 1) ≤ high := by split <;> omega
  have hc0' : c = 0 ∧ (if c = 0 then high else c - 1) = high ∨
      0 < c ∧ (if c = 0 then high else c - 1) = c - 1 := by
    by_cases h : c = 0
    · left; simp [h]
    · right; simp [h]; omega
  generalize (if c = 0 then high else c - 1) = c0 at hc0 hc0' hu ⊢
  have hd := down_gap fl (high + 2) c0
  have hle := Proofs.C16.down_le fl (high + 2) c0
  split
  · rename_i hfl
    rcases hc0' with ⟨e0, e1⟩ | ⟨e0, e1⟩
    · subst e0; subst e1
      exact Or.inr ⟨Nat.zero_le _, fun j a b => hd.1 j a b, fun j a => by omega⟩
    · subst e1
      exact Or.inl ⟨by omega, fun j a b => hd.1 j a (by omega)⟩
  · rename_i hfl
    rw [if_neg hfl] at hu
    have hfl' : fl[getPrior.down fl c0 (high + 2)]! = true := by simpa using hfl
    have hz := hd.2 (by omega) hfl'
    rw [hz] at hd hfl'
    have hall : ∀ j, j ≤ c0 → fl[j]! = true := by
      intro j hj
      by_cases e : j = 0
      · subst e; exact hfl'
      · exact hd.1 j (by omega) hj
    have hH := downH_gap fl (high + 2) high
    have hHle := (Proofs.C16.downH_spec fl (high + 2) high i hi hfi (by omega)).1
    refine Or.inr ⟨?_, fun j a b => hH j a b, fun j a => hall j ?_⟩
    · apply Nat.le_of_not_lt
      intro hlt
      have := hall (getPrior.downH fl high (high + 2)) (by rcases hc0' with ⟨e0, e1⟩ | ⟨e0, e1⟩ <;> omega)
      simp [hu] at this
    · rcases hc0' with ⟨e0, e1⟩ | ⟨e0, e1⟩ <;> omega

theorem getNext_eq {c high b : Nat} {fl : Array Bool} (hc : c ≤ high) (hg : Gap fl high c b)
    (hb : b ≤ high) (ub : fl[b]! = false) : getNext c high fl = b := by
  have hex : ∃ i, i ≤ high ∧ fl[i]! = false := ⟨b, hb, ub⟩
  have h := Proofs.C16.getNext_unflagged c high fl hc hex
  exact (getNext_gap c high fl hc hex).right_unique hg h.1 hb h.2 ub

theorem getPrior_eq {c high a : Nat} {fl : Array Bool} (hc : c ≤ high) (hg : Gap fl high a c)
    (ha : a ≤ high) (ua : fl[a]! = false) : getPrior c high fl = a := by
  have hex : ∃ i, i ≤ high ∧ fl[i]! = false := ⟨a, ha, ua⟩
  have h := Proofs.C16.getPrior_unflagged c high fl hc hex
  exact (getPrior_gap c high fl hc hex).left_unique hg h.1 ha h.2 ua


/-! ### removing one index -/

theorem unflag_set {fl : Array Bool} {r j : Nat} (hj : j ≠ r) (u : fl[j]! = false) :
    (fl.set! r true)[j]! = false := by
  rw [get_set!_ne fl r j true (Ne.symm hj)]; exact u

theorem set_mono (fl : Array Bool) (r : Nat) (hr : r < fl.size) :
    ∀ j : Nat, fl[j]! = true → (fl.set! r true)[j]! = true :=
  fun j h => (flag_set fl r j hr).2 (Or.inr h)

theorem rm_basic {fl : Array Bool} {high r : Nat} (hr : r ≤ high) (ur : fl[r]! = false)
    (hne : getNext r high fl ≠ getPrior r high fl) :
    getPrior r high fl ≤ high ∧ fl[getPrior r high fl]! = false ∧
    getNext r high fl ≤ high ∧ fl[getNext r high fl]! = false ∧
    getPrior r high fl ≠ r ∧ getNext r high fl ≠ r ∧
    Gap fl high (getPrior r high fl) r ∧ Gap fl high r (getNext r high fl) := by
  have hex : ∃ i, i ≤ high ∧ fl[i]! = false := ⟨r, hr, ur⟩
  have hp := Proofs.C16.getPrior_unflagged r high fl hr hex
  have hn := Proofs.C16.getNext_unflagged r high fl hr hex
  have gp := getPrior_gap r high fl hr hex
  have gn := getNext_gap r high fl hr hex
  refine ⟨hp.1, hp.2, hn.1, hn.2, ?_, ?_, gp, gn⟩
  · intro e
    rw [e] at gp
    have := gp.right_unique gn hr hn.1 ur hn.2
    exact hne (by rw [e]; exact this.symm)
  · intro e
    rw [e] at gn
    have := gn.left_unique gp hr hp.1 ur hp.2
    exact hne (by rw [e]; exact this)

theorem rm_gap_ab {fl : Array Bool} {high r : Nat} (hsz : fl.size = high + 1) (hr : r ≤ high)
    (ur : fl[r]! = false) (hne : getNext r high fl ≠ getPrior r high fl) :
    Gap (fl.set! r true) high (getPrior r high fl) (getNext r high fl) := by
  obtain ⟨_, _, _, _, _, _, gp, gn⟩ := rm_basic hr ur hne
  have hm := set_mono fl r (by omega)
  exact (gp.mono hm).trans (gn.mono hm) (get_set!_self fl r true (by omega))

theorem rm_prior_b {fl : Array Bool} {high r : Nat} (hsz : fl.size = high + 1) (hr : r ≤ high)
    (ur : fl[r]! = false) (hne : getNext r high fl ≠ getPrior r high fl) :
    getPrior (getNext r high fl) high (fl.set! r true) = getPrior r high fl := by
  obtain ⟨ha, ua, hb, ub, har, hbr, gp, gn⟩ := rm_basic hr ur hne
  exact getPrior_eq hb (rm_gap_ab hsz hr ur hne) ha (unflag_set har ua)

theorem rm_next_a {fl : Array Bool} {high r : Nat} (hsz : fl.size = high + 1) (hr : r ≤ high)
    (ur : fl[r]! = false) (hne : getNext r high fl ≠ getPrior r high fl) :
    getNext (getPrior r high fl) high (fl.set! r true) = getNext r high fl := by
  obtain ⟨ha, ua, hb, ub, har, hbr, gp, gn⟩ := rm_basic hr ur hne
  exact getNext_eq ha (rm_gap_ab hsz hr ur hne) hb (unflag_set hbr ub)

theorem rm_prior_other {fl : Array Bool} {high r i : Nat} (hsz : fl.size = high + 1) (hr : r ≤ high)
    (ur : fl[r]! = false) (hi : i ≤ high) (ui : fl[i]! = false) (hib : i ≠ getNext r high fl) :
    getPrior i high (fl.set! r true) = getPrior i high fl := by
  have hex : ∃ i, i ≤ high ∧ fl[i]! = false := ⟨r, hr, ur⟩
  have hp := Proofs.C16.getPrior_unflagged i high fl hi hex
  have hn := Proofs.C16.getNext_unflagged r high fl hr hex
  have gp := getPrior_gap i high fl hi hex
  have gn := getNext_gap r high fl hr hex
  have hpr : getPrior i high fl ≠ r := by
    intro e
    rw [e] at gp
    exact hib (gp.right_unique gn hi hn.1 ui hn.2)
  exact getPrior_eq hi (gp.mono (set_mono fl r (by omega))) hp.1 (unflag_set hpr hp.2)

theorem rm_next_other {fl : Array Bool} {high r i : Nat} (hsz : fl.size = high + 1) (hr : r ≤ high)
    (ur : fl[r]! = false) (hi : i ≤ high) (ui : fl[i]! = false) (hia : i ≠ getPrior r high fl) :
    getNext i high (fl.set! r true) = getNext i high fl := by
  have hex : ∃ i, i ≤ high ∧ fl[i]! = false := ⟨r, hr, ur⟩
  have hn := Proofs.C16.getNext_unflagged i high fl hi hex
  have hp := Proofs.C16.getPrior_unflagged r high fl hr hex
  have gn := getNext_gap i high fl hi hex
  have gp := getPrior_gap r high fl hr hex
  have hnr : getNext i high fl ≠ r := by
    intro e
    rw [e] at gn
    exact hia (gn.left_unique gp hi hp.1 ui hp.2)
  exact getNext_eq hi (gn.mono (set_mono fl r (by omega))) hn.1 (unflag_set hnr hn.2)

/-- for unflagged `c`: the prior of the next of `c` is `c` -/
theorem prior_next {fl : Array Bool} {high c : Nat} (hc : c ≤ high) (uc : fl[c]! = false) :
    getPrior (getNext c high fl) high fl = c := by
  have hex : ∃ i, i ≤ high ∧ fl[i]! = false := ⟨c, hc, uc⟩
  exact getPrior_eq (Proofs.C16.getNext_unflagged c high fl hc hex).1 (getNext_gap c high fl hc hex) hc uc

theorem next_prior {fl : Array Bool} {high c : Nat} (hc : c ≤ high) (uc : fl[c]! = false) :
    getNext (getPrior c high fl) high fl = c := by
  have hex : ∃ i, i ≤ high ∧ fl[i]! = false := ⟨c, hc, uc⟩
  exact getNext_eq (Proofs.C16.getPrior_unflagged c high fl hc hex).1 (getPrior_gap c high fl hc hex) hc uc

theorem map_range_get {D : Type} [Inhabited D] (l i : Nat) (f : Nat → D) (hi : i < l) : ((Array.range l).map f)[i]! = f i := by
  rw [getElem!_pos _ i (by simpa using hi)]; simp

/-! ### the invariant -/

variable {D : Type} [Inhabited D]

structure Inv (dist : Point64 → Point64 → Point64 → D) (path : Array Point64) (closed : Bool) (high : Nat)
    (s : SimpState D) : Prop where
  hf : s.flags.size = high + 1
  hd : s.dsq.size = high + 1
  hc : s.curr ≤ high
  hcu : s.flags[s.curr]! = false
  hdsq : ∀ i : Nat, i ≤ high → s.flags[i]! = false → (closed = true ∨ (i ≠ 0 ∧ i ≠ high)) →
    s.dsq[i]! = dist path[i]! path[getPrior i high s.flags]! path[getNext i high s.flags]!

/-- the state after removing `r` (with retained neighbours `a`, `b`, and `prior2` before `a`) -/
def removeAt (dist : Point64 → Point64 → Point64 → D) (path : Array Point64) (closed : Bool) (high : Nat)
    (s : SimpState D) (prior2 a r b : Nat) : SimpState D :=
  let flags := s.flags.set! r true
  let next := getNext b high flags
  let dsq := s.dsq
  let dsq := if closed || (b != high && b != 0) then dsq.set! b (dist path[b]! path[a]! path[next]!) else dsq
  let dsq := if closed || (a != 0 && a != high) then dsq.set! a (dist path[a]! path[prior2]! path[b]!) else dsq
  { flags := flags, dsq := dsq, curr := b }

theorem dsq2_other (d : Array D) (c1 c2 : Bool) (a b i : Nat) (va vb : D) (h1 : a ≠ i) (h2 : b ≠ i) :
    (if c2 then (if c1 then d.set! b vb else d).set! a va else (if c1 then d.set! b vb else d))[i]! = d[i]! := by
  cases c1 <;> cases c2 <;> simp only [if_true, if_false, Bool.false_eq_true] <;>
    simp only [get_set!_ne _ _ _ _ h1, get_set!_ne _ _ _ _ h2]

theorem dsq2_a (d : Array D) (c1 : Bool) (a b : Nat) (va vb : D) (ha : a < d.size) :
    ((if c1 then d.set! b vb else d).set! a va)[a]! = va := by
  apply get_set!_self
  cases c1 <;> simp [ha]

theorem dsq2_b (d : Array D) (c2 : Bool) (a b : Nat) (va vb : D) (hb : b < d.size) (hab : a ≠ b) :
    (if c2 then (d.set! b vb).set! a va else (d.set! b vb))[b]! = vb := by
  cases c2 <;> simp only [if_true, if_false, Bool.false_eq_true]
  · exact get_set!_self _ _ _ hb
  · rw [get_set!_ne _ _ _ _ hab]; exact get_set!_self _ _ _ hb

omit [Inhabited D] in
theorem dsq2_size (d : Array D) (c1 c2 : Bool) (a b : Nat) (va vb : D) :
    (if c2 then (if c1 then d.set! b vb else d).set! a va else (if c1 then d.set! b vb else d)).size = d.size := by
  cases c1 <;> cases c2 <;> simp

theorem inv_removeAt (dist : Point64 → Point64 → Point64 → D) (path : Array Point64) (closed : Bool) (high : Nat)
    (s : SimpState D) (hI : Inv dist path closed high s) (r : Nat) (hr : r ≤ high) (ur : s.flags[r]! = false)
    (hne : getNext r high s.flags ≠ getPrior r high s.flags) :
    Inv dist path closed high (removeAt dist path closed high s
      (getPrior (getPrior r high s.flags) high s.flags) (getPrior r high s.flags) r (getNext r high s.flags)) := by
  obtain ⟨ha, ua, hb, ub, har, hbr, gp, gn⟩ := rm_basic hr ur hne
  have hsz := hI.hf
  refine ⟨?_, ?_, hb, ?_, ?_⟩
  · simp [removeAt, hsz]
  · simp only [removeAt]; rw [dsq2_size]; exact hI.hd
  · simp only [removeAt]; exact unflag_set hbr ub
  · intro i hi ui hcl
    simp only [removeAt] at ui ⊢
    have hir : i ≠ r := by
      intro e; subst e
      rw [get_set!_self _ _ _ (by omega)] at ui; simp at ui
    have ui0 : s.flags[i]! = false := by
      rw [get_set!_ne _ _ _ _ (Ne.symm hir)] at ui; exact ui
    by_cases hib : i = getNext r high s.flags
    · -- i = b
      subst hib
      have hc1 : (closed || (getNext r high s.flags != high && getNext r high s.flags != 0)) = true := by
        rcases hcl with h | ⟨h1, h2⟩
        · simp [h]
        · simp [h1, h2]
      rw [hc1]
      simp only [if_true]
      rw [dsq2_b _ _ _ _ _ _ (by have := hI.hd; omega) (Ne.symm hne)]
      rw [rm_prior_b hsz hr ur hne]
    · by_cases hia : i = getPrior r high s.flags
      · subst hia
        have hc2 : (closed || (getPrior r high s.flags != 0 && getPrior r high s.flags != high)) = true := by
          rcases hcl with h | ⟨h1, h2⟩
          · simp [h]
          · simp [h1, h2]
        rw [hc2]
        simp only [if_true]
        rw [dsq2_a _ _ _ _ _ _ (by have := hI.hd; omega)]
        rw [rm_next_a hsz hr ur hne, rm_prior_other hsz hr ur ha ua hib]
      · rw [dsq2_other _ _ _ _ _ _ _ _ (Ne.symm hia) (Ne.symm hib)]
        rw [rm_prior_other hsz hr ur hi ui0 hib, rm_next_other hsz hr ur hi ui0 hia]
        exact hI.hdsq i hi ui0 hcl


/-! ### the scan -/

variable [LE D] [DecidableRel (α := D) (· ≤ ·)]

theorem go_some (epsSq : D) (high : Nat) (s : SimpState D) (start : Nat)
    (hex : ∃ i, i ≤ high ∧ s.flags[i]! = false) : ∀ (fuel c c' : Nat), c ≤ high →
    simplifyStep.go epsSq high s start c fuel = some c' → c' ≤ high ∧ s.flags[c']! = false := by
  intro fuel
  induction fuel with
  | zero => intro c c' _ h; unfold simplifyStep.go at h; contradiction
  | succ f ih =>
    intro c c' hc h
    unfold simplifyStep.go at h
    simp only at h
    have hn := Proofs.C16.getNext_unflagged c high s.flags hc hex
    split at h
    · contradiction
    · split at h
      · simp only [Option.some.injEq] at h
        subst h; exact hn
      · exact ih _ _ hn.1 h

/-! ### the scan visits every retained index -/

/-- cyclic distance from `c` forward to `start`, in `1..N` -/
def cdist (start N c : Nat) : Nat := if c < start then start - c else start + N - c

theorem cdist_spec (start N c : Nat) :
    (c < start ∧ cdist start N c = start - c) ∨ (start ≤ c ∧ cdist start N c = start + N - c) := by
  unfold cdist
  by_cases h : c < start
  · left; simp [h]
  · right; simp [h]; omega

theorem Gap.not_between {fl : Array Bool} {high c c' x : Nat} (h : Gap fl high c c') (hx : x ≤ high)
    (ux : fl[x]! = false) :
    (c < c' ∧ ¬ (c < x ∧ x < c')) ∨ (c' ≤ c ∧ ¬ (c < x) ∧ ¬ (x < c')) := by
  rcases h with ⟨h1, h2⟩ | ⟨h1, h2, h3⟩
  · left
    refine ⟨h1, fun hh => ?_⟩
    have := h2 x hh.1 hh.2; simp [ux] at this
  · right
    refine ⟨h1, fun hh => ?_, fun hh => ?_⟩
    · have := h2 x hh hx; simp [ux] at this
    · have := h3 x hh; simp [ux] at this

theorem go_none (epsSq : D) (high : Nat) (s : SimpState D) (start : Nat) (hst : start ≤ high)
    (ust : s.flags[start]! = false) : ∀ (fuel c : Nat), c ≤ high → cdist start (high + 1) c < fuel →
    (∀ j : Nat, j ≤ high → s.flags[j]! = false → j ≠ start →
      cdist start (high + 1) c ≤ cdist start (high + 1) j → ¬ (s.dsq[j]! ≤ epsSq)) →
    simplifyStep.go epsSq high s start c fuel = none →
    ∀ j : Nat, j ≤ high → s.flags[j]! = false → j ≠ start → ¬ (s.dsq[j]! ≤ epsSq) := by
  intro fuel
  induction fuel with
  | zero =>
    intro c hc hd
    have := cdist_spec start (high + 1) c
    omega
  | succ f ih =>
    intro c hc hd hinv h
    unfold simplifyStep.go at h
    simp only at h
    have hex : ∃ i, i ≤ high ∧ s.flags[i]! = false := ⟨start, hst, ust⟩
    have hn := Proofs.C16.getNext_unflagged c high s.flags hc hex
    have hg := getNext_gap c high s.flags hc hex
    have bs := hg.not_between hst ust
    have dc := cdist_spec start (high + 1) c
    have dc' := cdist_spec start (high + 1) (getNext c high s.flags)
    generalize getNext c high s.flags = c' at h hn hg bs dc'
    split at h
    · rename_i hcs
      intro j hj uj hjs
      have bj := hg.not_between hj uj
      have dj := cdist_spec start (high + 1) j
      exact hinv j hj uj hjs (by omega)
    · rename_i hcs
      split at h
      · contradiction
      · rename_i hgt
        refine ih c' hn.1 (by omega) ?_ h
        intro j hj uj hjs hdj
        by_cases e : j = c'
        · subst e; exact hgt
        · have bj := hg.not_between hj uj
          have dj := cdist_spec start (high + 1) j
          exact hinv j hj uj hjs (by omega)

variable [LT D] [DecidableRel (α := D) (· < ·)]

/-! ### analysis of one step -/

/-- the scan of `simplifyStep` -/
def scanOf (epsSq : D) (high : Nat) (s : SimpState D) : Option Nat :=
  if epsSq < s.dsq[s.curr]! then simplifyStep.go epsSq high s s.curr s.curr (high + 2) else some s.curr

theorem scan_some (dist : Point64 → Point64 → Point64 → D) (path : Array Point64) (epsSq : D) (closed : Bool)
    (high : Nat) (s : SimpState D) (hI : Inv dist path closed high s) (c : Nat)
    (h : scanOf epsSq high s = some c) : c ≤ high ∧ s.flags[c]! = false := by
  unfold scanOf at h
  split at h
  · exact go_some epsSq high s s.curr ⟨s.curr, hI.hc, hI.hcu⟩ _ _ _ hI.hc h
  · simp only [Option.some.injEq] at h
    subst h; exact ⟨hI.hc, hI.hcu⟩

theorem step_some_form (dist : Point64 → Point64 → Point64 → D) (path : Array Point64) (epsSq : D) (closed : Bool)
    (high : Nat) (s s' : SimpState D) (hI : Inv dist path closed high s)
    (h : simplifyStep dist path epsSq closed high s = some s') :
    ∃ r, r ≤ high ∧ s.flags[r]! = false ∧ getNext r high s.flags ≠ getPrior r high s.flags ∧
      s' = removeAt dist path closed high s
        (getPrior (getPrior r high s.flags) high s.flags) (getPrior r high s.flags) r (getNext r high s.flags) := by
  unfold simplifyStep at h
  simp only at h
  split at h
  · contradiction
  · rename_i c hscan
    have hc := scan_some dist path epsSq closed high s hI c hscan
    split at h
    · contradiction
    · rename_i hne
      obtain ⟨ha, ua, hb, ub, har, hbr, gp, gn⟩ := rm_basic hc.1 hc.2 hne
      split at h
      · -- remove `next`
        simp only [Option.some.injEq] at h
        have hpn : getPrior (getNext c high s.flags) high s.flags = c := prior_next hc.1 hc.2
        refine ⟨getNext c high s.flags, hb, ub, ?_, ?_⟩
        · rw [hpn]
          intro e
          have g2 := getNext_gap (getNext c high s.flags) high s.flags hb ⟨c, hc.1, hc.2⟩
          rw [e] at g2
          exact hne (g2.left_unique gp hb ha ub ua)
        · rw [hpn, ← h]; rfl
      · simp only [Option.some.injEq] at h
        exact ⟨c, hc.1, hc.2, hne, by rw [← h]; rfl⟩


theorem scan_none (dist : Point64 → Point64 → Point64 → D) (path : Array Point64) (epsSq : D) (closed : Bool)
    (high : Nat) (s : SimpState D) (hI : Inv dist path closed high s)
    (htot : ∀ a : D, epsSq < a ↔ ¬ (a ≤ epsSq)) (h : scanOf epsSq high s = none) :
    ∀ j : Nat, j ≤ high → s.flags[j]! = false → ¬ (s.dsq[j]! ≤ epsSq) := by
  unfold scanOf at h
  split at h
  · rename_i hlt
    intro j hj uj
    by_cases e : j = s.curr
    · subst e; exact (htot _).1 hlt
    · refine go_none epsSq high s s.curr hI.hc hI.hcu (high + 2) s.curr hI.hc ?_ ?_ h j hj uj e
      · have := cdist_spec s.curr (high + 1) s.curr; omega
      · intro j hj uj hjs hd
        have h1 := cdist_spec s.curr (high + 1) s.curr
        have h2 := cdist_spec s.curr (high + 1) j
        have h3 := hI.hc
        omega
  · contradiction

theorem step_none_form (dist : Point64 → Point64 → Point64 → D) (path : Array Point64) (epsSq : D) (closed : Bool)
    (high : Nat) (s : SimpState D) (hI : Inv dist path closed high s)
    (h : simplifyStep dist path epsSq closed high s = none) :
    scanOf epsSq high s = none ∨
      ∃ c, c ≤ high ∧ s.flags[c]! = false ∧ getNext c high s.flags = getPrior c high s.flags := by
  unfold simplifyStep at h
  simp only at h
  split at h
  · rename_i hscan; left; exact hscan
  · rename_i c hscan
    have hc := scan_some dist path epsSq closed high s hI c hscan
    split at h
    · rename_i he; right; exact ⟨c, hc.1, hc.2, he⟩
    · split at h <;> contradiction

/-- when `next = prior` for one retained index, it is so for all of them -/
theorem two_left {fl : Array Bool} {high c i : Nat} (hc : c ≤ high) (uc : fl[c]! = false)
    (he : getNext c high fl = getPrior c high fl) (hi : i ≤ high) (ui : fl[i]! = false) :
    getNext i high fl = getPrior i high fl := by
  have hex : ∃ i, i ≤ high ∧ fl[i]! = false := ⟨c, hc, uc⟩
  have hn := Proofs.C16.getNext_unflagged c high fl hc hex
  have gn := getNext_gap c high fl hc hex
  have gp := getPrior_gap c high fl hc hex
  rw [← he] at gp
  generalize getNext c high fl = p at hn gn gp
  -- gaps c → p and p → c : only c and p are retained
  have hcp : i = c ∨ i = p := by
    have b1 := gn.not_between hi ui
    have b2 := gp.not_between hi ui
    omega
  rcases hcp with e | e
  · subst e
    rw [getNext_eq hi gn hn.1 hn.2, getPrior_eq hi gp hn.1 hn.2]
  · subst e
    rw [getNext_eq hi gp hc uc, getPrior_eq hi gn hc uc]


/-! ### the loop stops with `simplifyStep = none` -/

theorem count_flag (fl : Array Bool) (r : Nat) (hr : r < fl.size) (ur : fl[r]! = false) :
    (fl.set! r true).count false = fl.count false - 1 := by
  have e : fl[r] = false := by rw [getElem!_pos fl r hr] at ur; exact ur
  have : fl.set! r true = fl.set r true hr := by
    simp [Array.set!_eq_setIfInBounds, Array.setIfInBounds, hr]
  rw [this, Array.count_set hr, e]
  simp

theorem count_pos_of_unflagged (fl : Array Bool) (r : Nat) (hr : r < fl.size) (ur : fl[r]! = false) :
    0 < fl.count false := by
  rw [Array.count_pos_iff]
  have e : fl[r] = false := by rw [getElem!_pos fl r hr] at ur; exact ur
  exact e ▸ Array.getElem_mem hr

theorem loop_end (dist : Point64 → Point64 → Point64 → D) (path : Array Point64) (epsSq : D) (closed : Bool)
    (high : Nat) : ∀ (fuel : Nat) (s : SimpState D), Inv dist path closed high s → s.flags.count false ≤ fuel →
    Inv dist path closed high (simplifyLoop dist path epsSq closed high fuel s) ∧
    simplifyStep dist path epsSq closed high (simplifyLoop dist path epsSq closed high fuel s) = none := by
  intro fuel
  induction fuel with
  | zero =>
    intro s hI hcnt
    have := count_pos_of_unflagged s.flags s.curr (by have := hI.hf; have := hI.hc; omega) hI.hcu
    omega
  | succ f ih =>
    intro s hI hcnt
    unfold simplifyLoop
    split
    · rename_i hnone; exact ⟨hI, hnone⟩
    · rename_i s' hsome
      obtain ⟨r, hr, ur, hne, rfl⟩ := step_some_form dist path epsSq closed high s s' hI hsome
      refine ih _ (inv_removeAt dist path closed high s hI r hr ur hne) ?_
      simp only [removeAt]
      rw [count_flag s.flags r (by have := hI.hf; omega) ur]
      omega

/-! ### the initial state -/

theorem rep_false (l j : Nat) : (Array.replicate l false)[j]! = false := by
  by_cases h : j < l
  · rw [getElem!_pos _ j (by simpa using h)]; simp
  · rw [getElem!_neg _ j (by simpa using h)]; rfl

theorem init_prior (l i : Nat) (hi : i ≤ l - 1) :
    getPrior i (l - 1) (Array.replicate l false) = if i = 0 then l - 1 else i - 1 := by
  split
  · rename_i h; subst h
    exact getPrior_eq hi (Or.inr ⟨Nat.zero_le _, fun j a b => by omega, fun j a => by omega⟩)
      (Nat.le_refl _) (rep_false _ _)
  · exact getPrior_eq hi (Or.inl ⟨by omega, fun j a b => by omega⟩) (by omega) (rep_false _ _)

theorem init_next (l i : Nat) (hi : i ≤ l - 1) :
    getNext i (l - 1) (Array.replicate l false) = if i = l - 1 then 0 else i + 1 := by
  split
  · rename_i h; subst h
    exact getNext_eq hi (Or.inr ⟨Nat.zero_le _, fun j a b => by omega, fun j a => by omega⟩)
      (Nat.zero_le _) (rep_false _ _)
  · exact getNext_eq hi (Or.inl ⟨by omega, fun j a b => by omega⟩) (by omega) (rep_false _ _)

theorem final_inv (dist : Point64 → Point64 → Point64 → D) (maxD : D) (path : Array Point64) (epsSq : D)
    (closed : Bool) (hl : 4 ≤ path.size)
    (hsym : closed = true → dist path[path.size - 1]! path[0]! path[path.size - 1 - 1]! =
      dist path[path.size - 1]! path[path.size - 1 - 1]! path[0]!) :
    Inv dist path closed (path.size - 1) (simplifyFinal dist maxD path epsSq closed) ∧
    simplifyStep dist path epsSq closed (path.size - 1) (simplifyFinal dist maxD path epsSq closed) = none := by
  unfold simplifyFinal
  simp only
  apply loop_end
  · refine ⟨by simp; omega, by simp; omega, Nat.zero_le _, rep_false _ _, ?_⟩
    intro i hi _ hcl
    simp only
    rw [init_prior _ i hi, init_next _ i hi, map_range_get _ i _ (by omega)]
    by_cases h0 : i = 0
    · subst h0
      rcases hcl with hc | hc
      · subst hc
        have : ¬ (0 = path.size - 1) := by omega
        simp [this]
      · exact absurd rfl hc.1
    · by_cases hh : i = path.size - 1
      · subst hh
        rcases hcl with hc | hc
        · simp only [if_neg h0, hc, if_true]
          exact hsym hc
        · exact absurd rfl hc.2
      · simp only [if_neg h0, if_neg hh]
  · simp

/-- post-condition of the removal loop, for a distance that does not depend on the order of the two
    line points at the one place where the Go code swaps them (`distSqr[high]` of a closed path) -/
theorem simplify_post' (dist : Point64 → Point64 → Point64 → D) (maxD : D) (path : Array Point64) (epsSq : D)
    (closed : Bool) (hl : 4 ≤ path.size) (htot : ∀ a : D, epsSq < a ↔ ¬ (a ≤ epsSq))
    (hsym : closed = true → dist path[path.size - 1]! path[0]! path[path.size - 1 - 1]! =
      dist path[path.size - 1]! path[path.size - 1 - 1]! path[0]!) :
    let s := simplifyFinal dist maxD path epsSq closed
    let high := path.size - 1
    ∀ i, i ≤ high → s.flags[i]! = false → (closed = true ∨ (i ≠ 0 ∧ i ≠ high)) →
      getNext i high s.flags ≠ getPrior i high s.flags →
      ¬ (dist path[i]! path[getPrior i high s.flags]! path[getNext i high s.flags]! ≤ epsSq) := by
  intro s high i hi ui hcl hne
  obtain ⟨hI, hnone⟩ := final_inv dist maxD path epsSq closed hl hsym
  rcases step_none_form dist path epsSq closed high s hI hnone with hsc | ⟨c, hc, uc, he⟩
  · rw [← hI.hdsq i hi ui hcl]
    exact scan_none dist path epsSq closed high s hI htot hsc i hi ui
  · exact absurd (two_left hc uc he hi ui) hne

theorem simplify_post (dist : Point64 → Point64 → Point64 → D) (maxD : D) (path : Array Point64) (epsSq : D)
    (closed : Bool) (hl : 4 ≤ path.size) (htot : ∀ a : D, epsSq < a ↔ ¬ (a ≤ epsSq))
    (hsym : ∀ p a b, dist p a b = dist p b a) :
    let s := simplifyFinal dist maxD path epsSq closed
    let high := path.size - 1
    ∀ i, i ≤ high → s.flags[i]! = false → (closed = true ∨ (i ≠ 0 ∧ i ≠ high)) →
      getNext i high s.flags ≠ getPrior i high s.flags →
      ¬ (dist path[i]! path[getPrior i high s.flags]! path[getNext i high s.flags]! ≤ epsSq) :=
  simplify_post' dist maxD path epsSq closed hl htot (fun _ => hsym _ _ _)


/-! ### the symmetry hypothesis is needed

For a closed path the Go code initialises `distSqr[high]` with the two line points in the order
(next, prior): `PerpendicDistFromLineSqr64(path[high], path[0], path[high-1])`.  With a distance that
depends on that order the cached value says nothing about `dist path[high] path[high-1] path[0]`. -/

def cexPath : Array Point64 := #[⟨0, 0⟩, ⟨10, 0⟩, ⟨10, 10⟩, ⟨0, 10⟩]

/-- `0` exactly when the vertex is `(0,10)` and the FIRST line point is `(10,10)`, else `1` -/
def cexDist (p a _b : Point64) : Nat :=
  if p.X = 0 ∧ p.Y = 10 ∧ a.X = 10 ∧ a.Y = 10 then 0 else 1

theorem cex_flags : (simplifyFinal cexDist 1000 cexPath 0 true).flags = #[false, false, false, false] := by
  decide +kernel

theorem needs_symmetry :
    ∃ (dist : Point64 → Point64 → Point64 → Nat) (maxD : Nat) (path : Array Point64) (epsSq : Nat) (closed : Bool),
      4 ≤ path.size ∧ (∀ a : Nat, epsSq < a ↔ ¬ (a ≤ epsSq)) ∧
      ¬ (let s := simplifyFinal dist maxD path epsSq closed
         let high := path.size - 1
         ∀ i, i ≤ high → s.flags[i]! = false → (closed = true ∨ (i ≠ 0 ∧ i ≠ high)) →
           getNext i high s.flags ≠ getPrior i high s.flags →
           ¬ (dist path[i]! path[getPrior i high s.flags]! path[getNext i high s.flags]! ≤ epsSq)) := by
  refine ⟨cexDist, 1000, cexPath, 0, true, by decide, fun a => by omega, ?_⟩
  intro h
  have h3 := h 3 (by decide) (by rw [cex_flags]; decide) (Or.inl rfl) (by rw [cex_flags]; decide +kernel)
  rw [cex_flags] at h3
  exact h3 (by decide +kernel)

end Proofs.C16b
