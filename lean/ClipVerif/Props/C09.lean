import ClipVerif.Proofs.C09
/-
C09 — open subject paths are cut exactly at the clip region boundary.  Proved: the open-edge
contribution test equals the keep predicate on the true winding numbers (all clip types and fill
rules); the sweep's handling of open edges is explored by the search with the 1-D coverage oracle.
-/
namespace C09
open Gen Spec

/-- Positive / Negative / NonZero: counts are the winding numbers themselves -/
theorem contributing_open_correct (ct fr : Nat) (wS wC : Int)
    (hct : ct = 1 ∨ ct = 2 ∨ ct = 3) (hfr : fr = 1 ∨ fr = 2 ∨ fr = 3) :
    clipperBase_isContributingOpen (mkEng ct fr) (mkOpenEdge wS wC) = keepOpen ct fr wS wC := by
  exact Proofs.C09.contributing_open_correct ct fr wS wC hct hfr

/-- EvenOdd: the engine stores the parities (0 / 1) of the two crossing counts -/
theorem contributing_open_correct_evenodd (ct : Nat) (wS wC : Int) (hct : ct = 1 ∨ ct = 2 ∨ ct = 3) :
    clipperBase_isContributingOpen (mkEng ct 0) (mkOpenEdge (wS % 2) (wC % 2)) = keepOpen ct 0 wS wC := by
  exact Proofs.C09.contributing_open_correct_evenodd ct wS wC hct

example : clipperBase_isContributingOpen (mkEng 1 1) (mkOpenEdge 0 1) = true := by decide

end C09
