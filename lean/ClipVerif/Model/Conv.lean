import ClipVerif.Gen.Funcs
import ClipVerif.Spec.Wind
/- conversions between the generated 64-bit types and the specification's unbounded integers -/
namespace Gen

def Point64.toI (p : Point64) : IPt := ⟨p.X.toInt, p.Y.toInt⟩
def pathToI (path : List Point64) : List IPt := path.map Point64.toI
def ofI (p : IPt) : Point64 := ⟨Int64.ofInt p.x, Int64.ofInt p.y⟩

/-- the coordinate domain of C01/C14/C15/C16: |coordinate| ≤ 2^29 -/
def Point64.inRange (p : Point64) : Prop :=
  -(2:Int)^29 ≤ p.X.toInt ∧ p.X.toInt ≤ (2:Int)^29 ∧ -(2:Int)^29 ≤ p.Y.toInt ∧ p.Y.toInt ≤ (2:Int)^29

/-- exact integer cross product of pt1→pt2 and pt2→pt3 -/
def crossZ (p1 p2 p3 : Point64) : Int :=
  (p2.X.toInt - p1.X.toInt) * (p3.Y.toInt - p2.Y.toInt) - (p2.Y.toInt - p1.Y.toInt) * (p3.X.toInt - p2.X.toInt)

end Gen
