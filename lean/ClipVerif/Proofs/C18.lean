namespace Proofs.C18
end Proofs.C18
