import ClipVerif.Model.AelPtr
import ClipVerif.Model.IntersectList
/-
The pointer surgery on the active-edge list implements the list operations the list-level models use.
-/
namespace Proofs.AelPtr
open Model.AelPtr

/-- the edges of `l` are linked in this order: `p` is the `prevInAEL` of the first, every edge's
`nextInAEL` is its successor and `prevInAEL` its predecessor, the last one's `nextInAEL` is nil -/
def Linked (h : Heap) : List Nat → Option Nat → Prop
  | [], _ => True
  | [x], p => h.prev x = p ∧ h.next x = none
  | x :: y :: t, p => h.prev x = p ∧ h.next x = some y ∧ Linked h (y :: t) (some x)

/-- the heap represents the active-edge list `l` (edges outside `l` may hold anything: `deleteFromAEL`
leaves the deleted edge's pointers stale) -/
def WF (h : Heap) (l : List Nat) : Prop := l.Nodup ∧ h.head = l.head? ∧ Linked h l none

/-! ### helpers -/

theorem upd_same (f : Nat → Option Nat) (i : Nat) (v : Option Nat) : upd f i v i = v := by simp [upd]
theorem upd_ne (f : Nat → Option Nat) (i j : Nat) (v : Option Nat) (hne : j ≠ i) : upd f i v j = f j := by
  simp [upd, hne]

def lastOr : List Nat → Option Nat → Option Nat
  | [], p => p
  | x :: t, _ => lastOr t (some x)

def headOr : List Nat → Option Nat → Option Nat
  | [], q => q
  | x :: _, _ => some x

@[simp] theorem headOr_nil (q : Option Nat) : headOr [] q = q := rfl
@[simp] theorem headOr_cons (x : Nat) (t : List Nat) (q : Option Nat) : headOr (x :: t) q = some x := rfl
@[simp] theorem lastOr_nil (p : Option Nat) : lastOr [] p = p := rfl
@[simp] theorem lastOr_cons (x : Nat) (t : List Nat) (p : Option Nat) : lastOr (x :: t) p = lastOr t (some x) := rfl

/-- segment: like `Linked`, but the last edge's `nextInAEL` is `q` -/
def Seg (h : Heap) : List Nat → Option Nat → Option Nat → Prop
  | [], _, _ => True
  | x :: t, p, q => h.prev x = p ∧ h.next x = headOr t q ∧ Seg h t (some x) q

theorem linked_iff_seg (h : Heap) (l : List Nat) (p : Option Nat) : Linked h l p ↔ Seg h l p none := by
  induction l generalizing p with
  | nil => simp [Linked, Seg]
  | cons x t ih =>
    cases t with
    | nil => simp [Linked, Seg, headOr]
    | cons y t => simp only [Linked, ih, Seg, headOr]

theorem lastOr_append (l1 l2 : List Nat) (p : Option Nat) : lastOr (l1 ++ l2) p = lastOr l2 (lastOr l1 p) := by
  induction l1 generalizing p with
  | nil => rfl
  | cons x t ih => simp [lastOr, ih]

theorem headOr_append (l1 l2 : List Nat) (q : Option Nat) : headOr (l1 ++ l2) q = headOr l1 (headOr l2 q) := by
  cases l1 <;> rfl

theorem seg_append (h : Heap) (l1 l2 : List Nat) (p q : Option Nat) :
    Seg h (l1 ++ l2) p q ↔ Seg h l1 p (headOr l2 q) ∧ Seg h l2 (lastOr l1 p) q := by
  induction l1 generalizing p with
  | nil => simp [Seg, lastOr]
  | cons x t ih =>
    simp only [List.cons_append, Seg, ih, headOr_append, lastOr, and_assoc]

theorem seg_congr (h h' : Heap) (l : List Nat) (p q : Option Nat)
    (hc : ∀ x ∈ l, h'.prev x = h.prev x ∧ h'.next x = h.next x) : Seg h l p q ↔ Seg h' l p q := by
  induction l generalizing p with
  | nil => simp [Seg]
  | cons x t ih =>
    have hx := hc x (by simp)
    have ht := ih (some x) (fun y hy => hc y (by simp [hy]))
    simp only [Seg, hx.1, hx.2, ht]

theorem seg_snoc (h : Heap) (l : List Nat) (a : Nat) (p q : Option Nat) :
    Seg h (l ++ [a]) p q ↔ Seg h l p (some a) ∧ h.prev a = lastOr l p ∧ h.next a = q := by
  simp [seg_append, Seg, headOr]

theorem head?_eq_headOr (l : List Nat) : l.head? = headOr l none := by cases l <;> rfl

theorem walk_seg (h : Heap) (l : List Nat) (p : Option Nat) (fuel : Nat) (hs : Seg h l p none)
    (hf : l.length ≤ fuel) : walk fuel h.next (headOr l none) = l := by
  induction l generalizing p fuel with
  | nil => cases fuel <;> simp [walk, headOr]
  | cons x t ih =>
    cases fuel with
    | zero => simp at hf
    | succ f =>
      simp only [Seg] at hs
      show walk (f + 1) h.next (some x) = _
      rw [walk, hs.2.1, ih (some x) f hs.2.2 (by simpa using hf)]

theorem lastOr_eq_some (l : List Nat) (p : Option Nat) (x : Nat) (hx : lastOr l p = some x) : x ∈ l ∨ p = some x := by
  induction l generalizing p with
  | nil => exact Or.inr hx
  | cons a t ih =>
    rcases ih (some a) hx with hm | hm
    · exact Or.inl (by simp [hm])
    · exact Or.inl (by simp at hm; simp [hm])

theorem lastOr_some_ne_none (l : List Nat) (a : Nat) : lastOr l (some a) ≠ none := by
  induction l generalizing a with
  | nil => simp
  | cons b t ih => exact ih b

theorem headOr_eq_some (l : List Nat) (q : Option Nat) (x : Nat) (hx : headOr l q = some x) : x ∈ l ∨ q = some x := by
  cases l with
  | nil => exact Or.inr hx
  | cons a t => simp at hx; exact Or.inl (by simp [hx])

/-- re-target the `next` of the last edge of a segment -/
theorem seg_requeue (h h' : Heap) (l : List Nat) (p q q' : Option Nat) (hs : Seg h l p q) (hnd : l.Nodup)
    (hp : ∀ x ∈ l, h'.prev x = h.prev x)
    (hn : ∀ x ∈ l, h'.next x = if lastOr l p = some x then q' else h.next x) : Seg h' l p q' := by
  induction l generalizing p with
  | nil => trivial
  | cons x t ih =>
    obtain ⟨h1, h2, h3⟩ := hs
    have hnd' := List.nodup_cons.mp hnd
    refine ⟨by rw [hp x (by simp), h1], ?_, ih (some x) h3 hnd'.2 (fun y hy => hp y (by simp [hy]))
      (fun y hy => hn y (by simp [hy]))⟩
    have hx := hn x (by simp)
    cases t with
    | nil => simpa using hx
    | cons y t' =>
      have : lastOr (x :: y :: t') p ≠ some x := by
        intro hc
        rcases lastOr_eq_some t' (some y) x hc with hm | hm
        · exact hnd'.1 (by simp [hm])
        · simp at hm; exact hnd'.1 (by simp [hm])
      rw [if_neg this] at hx
      rw [hx, h2]; rfl

/-- re-target the `prev` of the first edge of a segment -/
theorem seg_rehead (h h' : Heap) (l : List Nat) (p p' q : Option Nat) (hs : Seg h l p q) (hnd : l.Nodup)
    (hn : ∀ x ∈ l, h'.next x = h.next x)
    (hp : ∀ x ∈ l, h'.prev x = if headOr l q = some x then p' else h.prev x) : Seg h' l p' q := by
  cases l with
  | nil => trivial
  | cons x t =>
    obtain ⟨h1, h2, h3⟩ := hs
    have hnd' := List.nodup_cons.mp hnd
    refine ⟨by simpa using hp x (by simp), by rw [hn x (by simp), h2], ?_⟩
    refine (seg_congr h h' t (some x) q ?_).mp h3
    intro y hy
    have hyx : x ≠ y := by intro hc; subst hc; exact hnd'.1 hy
    refine ⟨?_, hn y (by simp [hy])⟩
    have := hp y (by simp [hy])
    simpa [hyx] using this

theorem swap_prev (h : Heap) (e1 e2 : Nat) (hnx : h.next e2 ≠ some e1) (x : Nat) :
    (swapPositions h e1 e2).prev x =
      if x = e1 then some e2 else if x = e2 then h.prev e1 else if h.next e2 = some x then some e1 else h.prev x := by
  cases hn : h.next e2 with
  | none => simp [swapPositions, hn, upd]
  | some n =>
    have hne : e1 ≠ n := by intro hc; apply hnx; simp [hn, hc]
    simp [swapPositions, hn, upd, hne]
    grind

theorem swap_next (h : Heap) (e1 e2 : Nat) (hnx : h.next e2 ≠ some e1) (x : Nat) :
    (swapPositions h e1 e2).next x =
      if x = e1 then h.next e2 else if x = e2 then some e1 else if h.prev e1 = some x then some e2 else h.next x := by
  cases hn : h.next e2 with
  | none => 
    cases hp : h.prev e1 <;> simp [swapPositions, hn, upd, hp]
    grind
  | some n =>
    have hne : e1 ≠ n := by intro hc; apply hnx; simp [hn, hc]
    cases hp : h.prev e1 <;> simp [swapPositions, hn, upd, hne, hp]
    grind

theorem swap_head (h : Heap) (e1 e2 : Nat) (hne : e1 ≠ e2) (hnx : h.next e2 ≠ some e1) :
    (swapPositions h e1 e2).head = if h.prev e1 = none then some e2 else h.head := by
  have hne' := hne.symm
  cases hn : h.next e2 with
  | none =>
    cases hp : h.prev e1 <;> simp [swapPositions, hn, upd, hp, hne']
  | some n =>
    have hne2 : e1 ≠ n := by intro hc; apply hnx; simp [hn, hc]
    cases hp : h.prev e1 <;> simp [swapPositions, hn, upd, hne2, hp, hne']

theorem swapAdj_split (l l' : List Nat) (a b : Nat) (hs : Model.Ix.swapAdj l a b = some l') :
    ∃ pre post, l = pre ++ a :: b :: post ∧ l' = pre ++ b :: a :: post := by
  induction l generalizing l' with
  | nil => simp [Model.Ix.swapAdj] at hs
  | cons x t ih =>
    cases t with
    | nil => simp [Model.Ix.swapAdj] at hs
    | cons y t' =>
      simp only [Model.Ix.swapAdj] at hs
      split at hs
      · rename_i hc
        simp at hc hs
        exact ⟨[], t', by simp [hc.1, hc.2], by simp [← hs, hc.1, hc.2]⟩
      · simp only [Option.map_eq_some_iff] at hs
        obtain ⟨l'', hl'', rfl⟩ := hs
        obtain ⟨pre, post, h1, h2⟩ := ih l'' hl''
        exact ⟨x :: pre, post, by simp [h1], by simp [h2]⟩

theorem del_next (h : Heap) (e x : Nat) :
    (deleteFromAEL h e).next x = if h.prev e = some x then h.next e else h.next x := by
  unfold deleteFromAEL
  cases hp : h.prev e <;> cases hn : h.next e <;> simp [upd] <;> grind

theorem del_prev (h : Heap) (e x : Nat) :
    (deleteFromAEL h e).prev x = if h.next e = some x then h.prev e else h.prev x := by
  unfold deleteFromAEL
  cases hp : h.prev e <;> cases hn : h.next e <;> simp [upd] <;> grind

theorem del_head (h : Heap) (e : Nat) (hh : h.prev e = none → h.head = some e) :
    (deleteFromAEL h e).head = if h.prev e = none then h.next e else h.head := by
  unfold deleteFromAEL
  cases hp : h.prev e <;> cases hn : h.next e <;> simp [hp] at hh ⊢ <;> grind

theorem insr_next (h : Heap) (e e2 x : Nat) :
    (insertRightEdge h e e2).next x = if x = e then some e2 else if x = e2 then h.next e else h.next x := by
  unfold insertRightEdge
  simp [upd]

theorem insr_prev (h : Heap) (e e2 x : Nat) :
    (insertRightEdge h e e2).prev x =
      if x = e2 then some e else if h.next e = some x then some e2 else h.prev x := by
  unfold insertRightEdge
  cases hn : h.next e <;> simp [upd] <;> grind

theorem wf_iff (h : Heap) (l : List Nat) : WF h l ↔ l.Nodup ∧ h.head = headOr l none ∧ Seg h l none none := by
  simp only [WF, linked_iff_seg, head?_eq_headOr]

theorem insertFirst_refines (h : Heap) (e : Nat) (hw : WF h []) : WF (insertFirst h e) [e] := by
  have _ := hw
  simp [WF, insertFirst, Linked, upd]

theorem insertFront_refines (h : Heap) (l : List Nat) (e : Nat) (hw : WF h l) (hne : l ≠ []) (hn : e ∉ l) :
    WF (insertFront h e) (e :: l) := by
  rw [wf_iff] at hw ⊢
  obtain ⟨hnd, hh, hl⟩ := hw
  cases l with
  | nil => exact absurd rfl hne
  | cons a t =>
    simp only [headOr_cons] at hh
    simp only [Seg] at hl
    obtain ⟨hpa, hna, ht⟩ := hl
    have hea : e ≠ a := by intro hc; apply hn; simp [hc]
    have hframe := seg_congr h (insertFront h e) t (some a) none (by
      intro x hx
      have hxe : x ≠ e := by intro hc; apply hn; simp [← hc, hx]
      have hxa : x ≠ a := by intro hc; subst hc; simp at hnd; exact hnd.1 hx
      simp [insertFront, hh, upd, hxe, hxa])
    refine ⟨?_, ?_, ?_⟩
    · simp only [List.nodup_cons]; exact ⟨hn, List.nodup_cons.mp hnd⟩
    · simp [insertFront, hh, headOr]
    · simp only [Seg, headOr_cons]
      refine ⟨?_, ?_, ?_, ?_, hframe.mp ht⟩
      · simp [insertFront, hh, upd, hea]
      · simp [insertFront, hh, upd]
      · simp [insertFront, hh, upd]
      · simp [insertFront, hh, upd, hea.symm, hna]

theorem insertRight_refines (h : Heap) (pre post : List Nat) (e e2 : Nat) (hw : WF h (pre ++ e :: post))
    (hn : e2 ∉ pre ++ e :: post) : WF (insertRightEdge h e e2) (pre ++ e :: e2 :: post) := by
  rw [wf_iff] at hw ⊢
  obtain ⟨hnd, hh, hl⟩ := hw
  simp only [seg_append, Seg, headOr_cons, headOr_append] at hl hh
  obtain ⟨hpre, hp, hnx, hpost⟩ := hl
  have hnd' : pre.Nodup ∧ post.Nodup ∧ e ∉ pre ∧ e ∉ post ∧ (∀ x ∈ pre, x ∉ post) ∧
      e2 ∉ pre ∧ e2 ∉ post ∧ e2 ≠ e := by
    simp only [List.nodup_append, List.nodup_cons, List.mem_cons, List.mem_append] at hnd hn
    grind
  obtain ⟨hndpre, hndpost, hepre, hepost, hdisj, h2pre, h2post, h2e⟩ := hnd'
  have hne : headOr post none ≠ some e := by
    intro hc; rcases headOr_eq_some _ _ _ hc with hm | hm
    · exact hepost hm
    · simp at hm
  refine ⟨?_, ?_, ?_⟩
  · simp only [List.nodup_append, List.nodup_cons, List.mem_cons]
    grind
  · simp only [headOr_append, headOr_cons]
    simpa [insertRightEdge] using hh
  · simp only [seg_append, Seg, headOr_cons]
    refine ⟨?_, ?_, ?_, ?_, ?_, ?_⟩
    · refine (seg_congr h _ pre none (some e) ?_).mp hpre
      intro x hx
      have hx1 : x ≠ e := by intro hc; exact hepre (hc ▸ hx)
      have hx2 : x ≠ e2 := by intro hc; exact h2pre (hc ▸ hx)
      have hxp : headOr post none ≠ some x := by
        intro hc; rcases headOr_eq_some _ _ _ hc with hm | hm
        · exact hdisj x hx hm
        · simp at hm
      rw [insr_prev, insr_next]; simp [hx1, hx2, hnx, hxp]
    · rw [insr_prev]; simp [h2e.symm, hnx, hne, hp]
    · rw [insr_next]; simp
    · rw [insr_prev]; simp
    · rw [insr_next]; simp [h2e, hnx]
    · refine seg_rehead h _ post (some e) (some e2) none hpost hndpost ?_ ?_
      · intro x hx
        have hx1 : x ≠ e := by intro hc; exact hepost (hc ▸ hx)
        have hx2 : x ≠ e2 := by intro hc; exact h2post (hc ▸ hx)
        rw [insr_next]; simp [hx1, hx2]
      · intro x hx
        have hx2 : x ≠ e2 := by intro hc; exact h2post (hc ▸ hx)
        rw [insr_prev]; simp [hx2, hnx]

theorem delete_refines (h : Heap) (pre post : List Nat) (e : Nat) (hw : WF h (pre ++ e :: post)) :
    WF (deleteFromAEL h e) (pre ++ post) := by
  rw [wf_iff] at hw ⊢
  obtain ⟨hnd, hh, hl⟩ := hw
  simp only [seg_append, Seg, headOr_cons, headOr_append] at hl hh
  obtain ⟨hpre, hp, hn, hpost⟩ := hl
  have hnd' : pre.Nodup ∧ post.Nodup ∧ e ∉ pre ∧ e ∉ post ∧ (∀ x ∈ pre, x ∉ post) := by
    simp only [List.nodup_append, List.nodup_cons, List.mem_cons] at hnd
    grind
  obtain ⟨hndpre, hndpost, hepre, hepost, hdisj⟩ := hnd'
  have hhe : h.prev e = none → h.head = some e := by
    intro hc
    cases pre with
    | nil => simpa using hh
    | cons a t => rw [hp] at hc; exact absurd hc (lastOr_some_ne_none t a)
  refine ⟨?_, ?_, ?_⟩
  · simp only [List.nodup_append]
    exact ⟨hndpre, hndpost, fun a ha b hb hab => hdisj a ha (hab ▸ hb)⟩
  · rw [del_head h e hhe, hp, hn, headOr_append]
    cases pre with
    | nil => simp
    | cons a t => simp [lastOr_some_ne_none] at hh ⊢; exact hh
  · simp only [seg_append]
    refine ⟨?_, ?_⟩
    · refine seg_requeue h _ pre none (some e) (headOr post none) hpre hndpre ?_ ?_
      · intro x hx
        have hxp : headOr post none ≠ some x := by
          intro hc; rcases headOr_eq_some _ _ _ hc with hm | hm
          · exact hdisj x hx hm
          · simp at hm
        rw [del_prev]; simp [hn, hxp]
      · intro x hx
        rw [del_next]; simp [hp, hn]
    · refine seg_rehead h _ post (some e) (lastOr pre none) none hpost hndpost ?_ ?_
      · intro x hx
        have hxp : lastOr pre none ≠ some x := by
          intro hc; rcases lastOr_eq_some _ _ _ hc with hm | hm
          · exact hdisj x hm hx
          · simp at hm
        rw [del_next]; simp [hp, hxp]
      · intro x hx
        rw [del_prev]; simp [hp, hn]

theorem swap_refines (h : Heap) (pre post : List Nat) (e1 e2 : Nat) (hw : WF h (pre ++ e1 :: e2 :: post)) :
    WF (swapPositions h e1 e2) (pre ++ e2 :: e1 :: post) := by
  rw [wf_iff] at hw ⊢
  obtain ⟨hnd, hh, hl⟩ := hw
  simp only [seg_append, Seg, headOr_cons, headOr_append] at hl hh
  obtain ⟨hpre, hp1, hn1, hp2, hn2, hpost⟩ := hl
  have hnd' : pre.Nodup ∧ post.Nodup ∧ e1 ∉ pre ∧ e2 ∉ pre ∧ e1 ∉ post ∧ e2 ∉ post ∧ e1 ≠ e2 ∧
      (∀ x ∈ pre, x ∉ post) := by
    simp only [List.nodup_append, List.nodup_cons, List.mem_cons] at hnd
    grind
  obtain ⟨hndpre, hndpost, h1pre, h2pre, h1post, h2post, h12, hdisj⟩ := hnd'
  have hnx : h.next e2 ≠ some e1 := by
    intro hc; rw [hn2] at hc
    rcases headOr_eq_some _ _ _ hc with hm | hm
    · exact h1post hm
    · simp at hm
  refine ⟨?_, ?_, ?_⟩
  · simp only [List.nodup_append, List.nodup_cons, List.mem_cons]
    grind
  · rw [swap_head h e1 e2 h12 hnx, hp1, headOr_append, headOr_cons]
    cases pre with
    | nil => simp
    | cons a t => simp [lastOr_some_ne_none] at hh ⊢; exact hh
  · simp only [seg_append, Seg, headOr_cons]
    have hlp1 : lastOr pre none ≠ some e1 := by
      intro hc; rcases lastOr_eq_some _ _ _ hc with hm | hm
      · exact h1pre hm
      · simp at hm
    have hlp2 : lastOr pre none ≠ some e2 := by
      intro hc; rcases lastOr_eq_some _ _ _ hc with hm | hm
      · exact h2pre hm
      · simp at hm
    refine ⟨?_, ?_, ?_, ?_, ?_, ?_⟩
    · refine seg_requeue h _ pre none (some e1) (some e2) hpre hndpre ?_ ?_
      · intro x hx
        have hx1 : x ≠ e1 := by intro hc; exact h1pre (hc ▸ hx)
        have hx2 : x ≠ e2 := by intro hc; exact h2pre (hc ▸ hx)
        have hxp : headOr post none ≠ some x := by
          intro hc; rcases headOr_eq_some _ _ _ hc with hm | hm
          · exact hdisj x hx hm
          · simp at hm
        rw [swap_prev h e1 e2 hnx]; simp [hx1, hx2, hn2, hxp]
      · intro x hx
        have hx1 : x ≠ e1 := by intro hc; exact h1pre (hc ▸ hx)
        have hx2 : x ≠ e2 := by intro hc; exact h2pre (hc ▸ hx)
        rw [swap_next h e1 e2 hnx]; simp [hx1, hx2, hp1]
    · rw [swap_prev h e1 e2 hnx]; simp [h12.symm, hp1]
    · rw [swap_next h e1 e2 hnx]; simp [h12.symm]
    · rw [swap_prev h e1 e2 hnx]; simp
    · rw [swap_next h e1 e2 hnx]; simp [hn2]
    · refine seg_rehead h _ post (some e2) (some e1) none hpost hndpost ?_ ?_
      · intro x hx
        have hx1 : x ≠ e1 := by intro hc; exact h1post (hc ▸ hx)
        have hx2 : x ≠ e2 := by intro hc; exact h2post (hc ▸ hx)
        have hxp : lastOr pre none ≠ some x := by
          intro hc; rcases lastOr_eq_some _ _ _ hc with hm | hm
          · exact hdisj x hm hx
          · simp at hm
        rw [swap_next h e1 e2 hnx]; simp [hx1, hx2, hp1, hxp]
      · intro x hx
        have hx1 : x ≠ e1 := by intro hc; exact h1post (hc ▸ hx)
        have hx2 : x ≠ e2 := by intro hc; exact h2post (hc ▸ hx)
        rw [swap_prev h e1 e2 hnx]; simp [hx1, hx2, hn2]

/-- what `Model.Ix.process` calls a legal swap is exactly what the pointer code implements -/
theorem swapAdj_refines (h : Heap) (l l' : List Nat) (a b : Nat) (hw : WF h l)
    (hs : Model.Ix.swapAdj l a b = some l') : WF (swapPositions h a b) l' := by
  obtain ⟨pre, post, rfl, rfl⟩ := swapAdj_split l l' a b hs
  exact swap_refines h pre post a b hw

/-- walking `nextInAEL` from `c.actives` reads exactly the represented list -/
theorem toList_of_WF (h : Heap) (l : List Nat) (hw : WF h l) (fuel : Nat) (hf : l.length ≤ fuel) :
    toList fuel h = l := by
  obtain ⟨_, hh, hl⟩ := hw
  rw [linked_iff_seg] at hl
  simp only [toList, hh, head?_eq_headOr]
  exact walk_seg h l none fuel hl hf

end Proofs.AelPtr
