import ClipVerif.Model.Out
import ClipVerif.Proofs.C14
/- helper lemmas and proofs for the output-ring theorems of Props/C02.lean (model `Model.Out`) -/
namespace Proofs.Out
open Gen Model Proofs.C14

/-! ### `removable_of_duplicate` -/

theorem abs0 : F.toU64 (F.abs (F.ofInt64 0)) = 0 := by
  apply UInt64.toNat_inj.mp
  rw [absU64_toNat (by decide)]
  decide

theorem tri0 : triSign 0 = 0 := by rw [triSign_eq]; decide

theorem pae_left (b d : Int64) : productsAreEqual 0 b 0 d = true := by
  simp only [productsAreEqual, Id.run, pure, abs0, tri0, Int.zero_mul, decide_true, Bool.and_true,
    Bool.and_eq_true, decide_eq_true_eq]
  rw [mulU64_eq_iff]; simp

theorem pae_right (a c : Int64) : productsAreEqual a 0 c 0 = true := by
  simp only [productsAreEqual, Id.run, pure, abs0, tri0, Int.mul_zero, decide_true, Bool.and_true,
    Bool.and_eq_true, decide_eq_true_eq]
  rw [mulU64_eq_iff]; simp

theorem col_left (p x : Point64) : isCollinear p p x = true := by
  simp only [isCollinear, Id.run, pure, Int64.sub_self]
  exact pae_left _ _

theorem col_right (p c : Point64) : isCollinear p c c = true := by
  simp only [isCollinear, Id.run, pure, Int64.sub_self]
  exact pae_right _ _

theorem removable_of_duplicate (preserve : Bool) (ring : List Point64) (i : Nat)
    (h : ringGet ring i = ringGet ring (ringPrev ring.length i) ∨
         ringGet ring i = ringGet ring (ringNext ring.length i)) :
    removable preserve ring i = true := by
  unfold removable
  rcases h with h | h
  · simp only [h, col_left, beq_self_eq_true, Bool.true_or, Bool.and_true]
  · simp only [← h, col_right, beq_self_eq_true, Bool.true_or, Bool.or_true, Bool.and_true]

/-! ### `clean_post`: lap invariant and potential -/

def dist (s : CleanSt) : Nat := if s.start ≤ s.cur then s.cur - s.start else s.cur + s.ring.length - s.start

def inArc (s : CleanSt) (i : Nat) : Prop :=
  if s.start ≤ s.cur then s.start ≤ i ∧ i < s.cur else (s.start ≤ i ∨ i < s.cur)

structure Inv (preserve : Bool) (s : CleanSt) : Prop where
  len : 2 ≤ s.ring.length
  cur : s.cur < s.ring.length
  start : s.start < s.ring.length
  pts : s.pts < s.ring.length
  chk : ∀ i, i < s.ring.length → inArc s i → removable preserve s.ring i = false

def Post (preserve : Bool) (s : CleanSt) : Prop :=
  s.ring = [] ∨ (2 ≤ s.ring.length ∧ s.pts < s.ring.length ∧
    ∀ i, i < s.ring.length → removable preserve s.ring i = false)

def phi (s : CleanSt) : Nat := s.ring.length * (s.ring.length + 1) + (s.ring.length - dist s)

theorem next_eq {n c : Nat} (h : c < n) : ringNext n c = if c + 1 = n then 0 else c + 1 := by
  unfold ringNext
  split
  · next h1 => rw [h1, Nat.mod_self]
  · exact Nat.mod_eq_of_lt (by omega)

theorem prev_eq {n c : Nat} (h : c < n) : ringPrev n c = if c = 0 then n - 1 else c - 1 := by
  unfold ringPrev
  split
  · next h1 => subst h1; rw [Nat.zero_add]; exact Nat.mod_eq_of_lt (by omega)
  · have : c + n - 1 = (c - 1) + n := by omega
    rw [this, Nat.add_mod_right]; exact Nat.mod_eq_of_lt (by omega)

theorem step_spec (preserve : Bool) (s : CleanSt) (h : Inv preserve s) :
    ((cleanStep preserve s).2 = true ∧ Inv preserve (cleanStep preserve s).1 ∧
        phi (cleanStep preserve s).1 < phi s) ∨
    ((cleanStep preserve s).2 = false ∧ Post preserve (cleanStep preserve s).1) := by
  obtain ⟨hlen, hcur, hstart, hpts, hchk⟩ := h
  unfold cleanStep
  by_cases hr : removable preserve s.ring s.cur = true
  · simp only [hr, if_true]
    by_cases hn : s.ring.length - 1 < 2
    · right
      simp only [hn, if_true]
      exact ⟨trivial, Or.inl rfl⟩
    · left
      simp only [hn, if_false]
      refine ⟨trivial, ⟨?_, ?_, ?_, ?_, ?_⟩, ?_⟩
      · simp only [List.length_eraseIdx, hcur, if_true]; omega
      · simp only [List.length_eraseIdx, hcur, if_true]; split <;> omega
      · simp only [List.length_eraseIdx, hcur, if_true]; split <;> omega
      · simp only [List.length_eraseIdx, hcur, if_true, prev_eq hcur]
        grind
      · intro i _ hi
        simp only [inArc, Nat.le_refl, if_true] at hi
        omega
      · simp only [phi, dist, List.length_eraseIdx, hcur, if_true, Nat.le_refl, Nat.sub_self]
        obtain ⟨m, hm⟩ : ∃ m, s.ring.length = m + 1 := ⟨s.ring.length - 1, by omega⟩
        rw [hm]
        have e : (m + 1) * (m + 1 + 1) = (m + 1 - 1) * (m + 1 - 1 + 1) + 2 * m + 2 := by
          simp only [Nat.add_sub_cancel, Nat.mul_add, Nat.add_mul]; omega
        rw [e]
        split <;> omega
  · simp only [hr, Bool.false_eq_true, if_false]
    have hr' : removable preserve s.ring s.cur = false := by simpa using hr
    by_cases hs : ringNext s.ring.length s.cur = s.start
    · right
      refine ⟨by simp [hs], Or.inr ⟨hlen, hpts, ?_⟩⟩
      intro i hi
      simp only at hi ⊢
      rw [next_eq hcur] at hs
      by_cases hic : i = s.cur
      · rw [hic]; exact hr'
      · apply hchk i hi
        unfold inArc
        split at hs <;> split <;> omega
    · left
      refine ⟨by simp [hs], ⟨hlen, ?_, hstart, hpts, ?_⟩, ?_⟩
      · simp only [next_eq hcur]; split <;> omega
      · intro i hi harc
        simp only at hi harc ⊢
        by_cases hic : i = s.cur
        · rw [hic]; exact hr'
        · apply hchk i hi
          rw [next_eq hcur] at hs
          simp only [inArc, next_eq hcur] at harc ⊢
          grind
      · rw [next_eq hcur] at hs
        simp only [phi, dist, next_eq hcur]
        grind

theorem loop_spec (preserve : Bool) : ∀ (fuel : Nat) (s : CleanSt), Inv preserve s → phi s ≤ fuel →
    Post preserve (cleanLoop preserve fuel s) := by
  intro fuel
  induction fuel with
  | zero =>
    intro s h hf
    have := h.len
    have : 0 < phi s := by
      unfold phi
      have : 0 < s.ring.length * (s.ring.length + 1) := Nat.mul_pos (by omega) (by omega)
      omega
    omega
  | succ f ih =>
    intro s h hf
    unfold cleanLoop
    rcases step_spec preserve s h with ⟨h1, h2, h3⟩ | ⟨h1, h2⟩
    · generalize cleanStep preserve s = r at *
      obtain ⟨s', b⟩ := r
      simp only at h1 h2 h3
      subst h1
      exact ih s' h2 (by omega)
    · generalize cleanStep preserve s = r at *
      obtain ⟨s', b⟩ := r
      simp only at h1 h2
      subst h1
      exact h2

theorem clean_post (preserve : Bool) (ring : List Point64) :
    (cleanCollinearLoop preserve ring).1 = [] ∨
    (2 ≤ (cleanCollinearLoop preserve ring).1.length ∧
     (cleanCollinearLoop preserve ring).2 < (cleanCollinearLoop preserve ring).1.length ∧
     ∀ i, i < (cleanCollinearLoop preserve ring).1.length →
       removable preserve (cleanCollinearLoop preserve ring).1 i = false) := by
  unfold cleanCollinearLoop
  by_cases hl : ring.length < 2
  · simp [hl]
  · simp only [hl, if_false]
    apply loop_spec
    · refine ⟨by simp only; omega, by simp only; omega, by simp only; omega, by simp only; omega, ?_⟩
      intro i _ hi
      simp only [inArc, Nat.le_refl, if_true] at hi
      omega
    · simp only [phi, dist, Nat.le_refl, if_true, Nat.sub_self, Nat.sub_zero]
      simp only [Nat.mul_add, Nat.add_mul]; omega

/-! ### `clean_sublist`, `dedupAdjacent` -/

theorem step_sublist (preserve : Bool) (s : CleanSt) : (cleanStep preserve s).1.ring.Sublist s.ring := by
  unfold cleanStep
  simp only
  split
  · split
    · exact List.nil_sublist _
    · exact List.eraseIdx_sublist _ _
  · exact List.Sublist.refl _

theorem loop_sublist (preserve : Bool) : ∀ (fuel : Nat) (s : CleanSt),
    (cleanLoop preserve fuel s).ring.Sublist s.ring := by
  intro fuel
  induction fuel with
  | zero => intro s; exact List.Sublist.refl _
  | succ f ih =>
    intro s
    unfold cleanLoop
    have h := step_sublist preserve s
    generalize cleanStep preserve s = r at *
    obtain ⟨s', b⟩ := r
    cases b
    · exact h
    · exact (ih s').trans h

theorem clean_sublist (preserve : Bool) (ring : List Point64) :
    (cleanCollinearLoop preserve ring).1.Sublist ring := by
  unfold cleanCollinearLoop
  split
  · exact List.nil_sublist _
  · exact loop_sublist preserve _ _

/-- no two equal adjacent elements -/
def NoAdj : List Point64 → Prop
  | [] => True
  | [_] => True
  | a :: b :: l => a ≠ b ∧ NoAdj (b :: l)

theorem noAdj_cons {a : Point64} {l : List Point64} (h : NoAdj l) (hh : l.head? ≠ some a) : NoAdj (a :: l) := by
  cases l with
  | nil => trivial
  | cons b l => exact ⟨fun e => hh (by simp [e]), h⟩

theorem go_spec (last : Point64) (l : List Point64) :
    NoAdj (dedupAdjacent.go last l) ∧ (dedupAdjacent.go last l).head? ≠ some last := by
  induction l generalizing last with
  | nil => simp [dedupAdjacent.go, NoAdj]
  | cons q rest ih =>
    unfold dedupAdjacent.go
    split
    · exact ih last
    · next hne =>
      refine ⟨noAdj_cons (ih q).1 (ih q).2, ?_⟩
      simp only [List.head?_cons, ne_eq, Option.some.injEq]; exact hne

theorem dedup_noAdj (l : List Point64) : NoAdj (dedupAdjacent l) := by
  cases l with
  | nil => trivial
  | cons p rest => exact noAdj_cons (go_spec p rest).1 (go_spec p rest).2

theorem noAdj_index : ∀ (l : List Point64), NoAdj l → ∀ i, i + 1 < l.length → l[i]! ≠ l[i + 1]!
  | [], _, i, hi => by simp at hi
  | [_], _, i, hi => by simp at hi
  | a :: b :: l, h, 0, _ => by simpa using h.1
  | a :: b :: l, h, i + 1, hi => by
    have := noAdj_index (b :: l) h.2 i (by simpa using hi)
    simpa using this

theorem index_noAdj : ∀ (l : List Point64), (∀ i, i + 1 < l.length → l[i]! ≠ l[i + 1]!) → NoAdj l
  | [], _ => trivial
  | [_], _ => trivial
  | a :: b :: l, h => by
    refine ⟨by simpa using h 0 (by simp), index_noAdj (b :: l) ?_⟩
    intro i hi
    have := h (i + 1) (by simpa using hi)
    simpa using this

theorem build_eq (ring : List Point64) (reverse isOpen : Bool) (q : List Point64)
    (h : buildPath ring reverse isOpen = some q) : ∃ l, q = dedupAdjacent l := by
  unfold buildPath at h
  simp only at h
  generalize (if reverse = true then ring.head! :: ring.tail.reverse else ring.tail ++ [ring.head!]) = seq at h
  split at h
  · cases h
  · split at h
    · exact ⟨_, (Option.some.inj h).symm⟩
    · split at h
      · cases h
      · exact ⟨_, (Option.some.inj h).symm⟩

theorem build_no_adjacent_duplicates (ring : List Point64) (reverse isOpen : Bool) (q : List Point64)
    (h : buildPath ring reverse isOpen = some q) :
    ∀ i, i + 1 < q.length → q[i]! ≠ q[i + 1]! := by
  obtain ⟨l, rfl⟩ := build_eq ring reverse isOpen q h
  exact noAdj_index _ (dedup_noAdj l)

/-! ### `build_closed_of_clean` -/

theorem noAdj_tail {a : Point64} {l : List Point64} (h : NoAdj (a :: l)) : NoAdj l := by
  cases l with
  | nil => trivial
  | cons b l => exact h.2

theorem noAdj_head {a : Point64} {l : List Point64} (h : NoAdj (a :: l)) : l.head? ≠ some a := by
  cases l with
  | nil => simp
  | cons b l => simp only [List.head?_cons, ne_eq, Option.some.injEq]; exact fun e => h.1 e.symm

theorem go_id (last : Point64) (l : List Point64) (h : NoAdj (last :: l)) :
    dedupAdjacent.go last l = l := by
  induction l generalizing last with
  | nil => rfl
  | cons q rest ih =>
    unfold dedupAdjacent.go
    rw [if_neg (fun e => h.1 e.symm), ih q h.2]

theorem dedup_id (l : List Point64) (h : NoAdj l) : dedupAdjacent l = l := by
  cases l with
  | nil => rfl
  | cons p rest => show p :: dedupAdjacent.go p rest = _; rw [go_id p rest h]

theorem noAdj_append_single {a : Point64} : ∀ (l : List Point64), NoAdj l → l.getLast? ≠ some a → NoAdj (l ++ [a])
  | [], _, _ => trivial
  | [b], _, h => ⟨by simpa using h, trivial⟩
  | b :: c :: l, h, hl => ⟨h.1, noAdj_append_single (c :: l) h.2 (by simpa using hl)⟩

theorem noAdj_reverse (l : List Point64) (h : NoAdj l) : NoAdj l.reverse := by
  induction l with
  | nil => trivial
  | cons a l ih =>
    rw [List.reverse_cons]
    apply noAdj_append_single _ (ih (noAdj_tail h))
    rw [List.getLast?_reverse]
    exact noAdj_head h

theorem hnd_all (ring : List Point64)
    (hn : 0 < ring.length)
    (hnd : ∀ i, i < ring.length → ringGet ring i ≠ ringGet ring (ringNext ring.length i)) (j : Nat) :
    ringGet ring j ≠ ringGet ring (j + 1) := by
  have := hnd (j % ring.length) (Nat.mod_lt _ hn)
  simpa only [ringGet, ringNext, Nat.mod_mod, Nat.mod_add_mod] using this

theorem seq_index (h : Point64) (t : List Point64) (i : Nat) (hi : i < t.length + 1) :
    (t ++ [h])[i]! = ringGet (h :: t) (i + 1) := by
  unfold ringGet
  simp only [List.length_cons]
  by_cases e : i = t.length
  · subst e; simp
  · rw [Nat.mod_eq_of_lt (by omega)]
    have : i < t.length := by omega
    simp [List.getElem?_append_left this]

theorem seq_noAdj (h : Point64) (t : List Point64)
    (hnd : ∀ i, i < (h :: t).length → ringGet (h :: t) i ≠ ringGet (h :: t) (ringNext (h :: t).length i)) :
    NoAdj (t ++ [h]) := by
  apply index_noAdj
  intro i hi
  simp only [List.length_append, List.length_singleton] at hi
  rw [seq_index h t i (by omega), seq_index h t (i + 1) (by omega)]
  exact hnd_all (h :: t) (by simp) hnd (i + 1)

theorem build_closed_of_clean (ring : List Point64) (reverse : Bool) (hn : 3 ≤ ring.length)
    (hnd : ∀ i, i < ring.length → ringGet ring i ≠ ringGet ring (ringNext ring.length i)) :
    buildPath ring reverse false =
      (if ring.length = 3 ∧ verySmallTriangle ring[0]! ring[1]! ring[2]! = true then none
       else some (if reverse then ring.head! :: ring.tail.reverse else ring.tail ++ [ring.head!])) := by
  cases ring with
  | nil => simp at hn
  | cons h t =>
    have h1 : NoAdj (t ++ [h]) := seq_noAdj h t hnd
    have h2 : NoAdj (h :: t.reverse) := by
      have := noAdj_reverse _ h1
      simpa using this
    have h3 : NoAdj (if reverse = true then h :: t.reverse else t ++ [h]) := by
      split <;> assumption
    have h4 : (if reverse = true then h :: t.reverse else t ++ [h]).length = t.length + 1 := by
      split <;> simp
    have hh : (h :: t).head! = h := rfl
    unfold buildPath
    simp only [hh, List.tail_cons, dedup_id _ h3, h4]
    simp only [List.length_cons] at hn ⊢
    rw [if_neg (by simp; omega)]
    by_cases e : t.length + 1 = 3
    · simp [e]
    · simp [e]

end Proofs.Out
