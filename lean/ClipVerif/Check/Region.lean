import ClipVerif.Spec.Wind
/-
Executable region checker (slab decomposition, exact `Rat`).

`checkRegion labs band r2 bad` looks for a point p with
  * p farther than r (r² = r2) from every band segment,
  * p on no edge of any label,
  * `bad` true of the vector of winding numbers (one per label) at p.
The decomposition (sorted crossings in every slab between consecutive event ordinates) is only
a *candidate generator*: every witness it returns has been re-evaluated with the plain
definitions `Spec.windS`, `Spec.onPaths`, `Spec.far`, so a reported witness is a true
counterexample of the specification whatever the decomposition did.  A pass means: in every
face of the decomposition whose winding vector is `bad`, all sampled points lie in the band.
-/

namespace Check
open Spec

structure LEdge where
  lab : Nat
  a : IPt
  b : IPt
  deriving Inhabited

structure RegionResult where
  slabs : Nat := 0
  faces : Nat := 0        -- gaps judged
  badInBand : Nat := 0    -- faces whose vector is bad but every sample is within the band
  crosschecks : Nat := 0  -- faces where the sweep's vector was compared with the plain definition
  internal : Option String := none  -- decomposition disagreed with the plain definition
  witness : Option (QPt × List Int) := none

def ratOfInt (i : Int) : Rat := (i : Rat)

/-- x of the (non-horizontal) edge at ordinate y -/
def xAt (e : LEdge) (y : Rat) : Rat :=
  ratOfInt e.a.x + (y - ratOfInt e.a.y) * ratOfInt (e.b.x - e.a.x) / ratOfInt (e.b.y - e.a.y)

/-- ordinate of the proper (interior) intersection of two segments, if any -/
def crossY (e f : LEdge) : Option Rat :=
  let d1x := e.b.x - e.a.x; let d1y := e.b.y - e.a.y
  let d2x := f.b.x - f.a.x; let d2y := f.b.y - f.a.y
  let det := d1x * d2y - d1y * d2x
  if det == 0 then none
  else
    let wx := f.a.x - e.a.x; let wy := f.a.y - e.a.y
    let tn := wx * d2y - wy * d2x   -- t = tn/det on e
    let un := wx * d1y - wy * d1x   -- u = un/det on f
    let inOpen (n d : Int) : Bool := if d > 0 then decide (0 < n ∧ n < d) else decide (d < n ∧ n < 0)
    if inOpen tn det && inOpen un det then
      some (ratOfInt e.a.y + ratOfInt tn * ratOfInt d1y / ratOfInt det)
    else none

def mkEdges (labs : Array (List (List IPt))) : Array LEdge := Id.run do
  let mut out : Array LEdge := #[]
  for h : i in [0:labs.size] do
    for path in labs[i] do
      for e in edgesOf path do
        if e.1 != e.2 then out := out.push { lab := i, a := e.1, b := e.2 }
  return out

def dedupSorted (a : Array Rat) : Array Rat := Id.run do
  let mut out : Array Rat := #[]
  for v in a do
    match out.back? with
    | some w => if w == v then pure () else out := out.push v
    | none => out := out.push v
  return out

/-- winding vector at p by the plain definitions -/
def plainVec (labs : Array (List (List IPt))) (p : QPt) : Array Int :=
  labs.map (fun paths => windS paths p)

def onAny (labs : Array (List (List IPt))) (p : QPt) : Bool :=
  labs.any (fun paths => onPaths paths p)

def checkRegion (labs : Array (List (List IPt))) (band : List (IPt × IPt)) (r2 : Rat)
    (bad : Array Int → Bool) : RegionResult := Id.run do
  let edges := mkEdges labs
  let nh := edges.filter (fun e => e.a.y != e.b.y)
  -- event ordinates
  let mut ys0 : Array Rat := #[]
  for e in edges do
    ys0 := ys0.push (ratOfInt e.a.y)
    ys0 := ys0.push (ratOfInt e.b.y)
  for h : i in [0:nh.size] do
    for hj : j in [i+1:nh.size] do
      match crossY nh[i] nh[j] with
      | some y => ys0 := ys0.push y
      | none => pure ()
  let ys := dedupSorted (ys0.qsort (· < ·))
  let nlab := labs.size
  let mut res : RegionResult := {}
  for h : k in [0:ys.size - 1] do
    let y0 := ys[k]!
    let y1 := ys[k+1]!
    let ym := (y0 + y1) / 2
    res := { res with slabs := res.slabs + 1 }
    -- edges spanning the slab with their x at ym
    let mut act0 : Array (Rat × LEdge) := #[]
    for e in nh do
      let lo := ratOfInt (min e.a.y e.b.y)
      let hi := ratOfInt (max e.a.y e.b.y)
      if lo ≤ y0 ∧ y1 ≤ hi then act0 := act0.push (xAt e ym, e)
    let act := act0.qsort (fun p q => p.1 < q.1)
    -- suffix sums: winding vector in the gap left of act[i] is the sum of dir over act[i..]
    let n := act.size
    if n == 0 then continue
    let mut vec : Array Int := Array.replicate nlab 0
    -- iterate gaps from the right: gap i is between act[i-1] and act[i], i = n-1 … 1
    let mut i := n
    while i > 1 do
      i := i - 1
      let (xr, er) := act[i]!
      let dir : Int := if er.a.y < er.b.y then 1 else -1
      vec := vec.modify er.lab (· + dir)
      let (xl, el) := act[i-1]!
      if xl == xr then continue
      res := { res with faces := res.faces + 1 }
      let doCross := (res.faces % 13 == 0)
      let isBad := bad vec
      if !(isBad || doCross) then continue
      if doCross then
        let p : QPt := ⟨(xl + xr) / 2, ym⟩
        res := { res with crosschecks := res.crosschecks + 1 }
        if plainVec labs p != vec then
          res := { res with internal := some s!"sweep vector {vec} ≠ plain {plainVec labs p} at ({p.x},{p.y})" }
          return res
      if !isBad then continue
      -- candidate points inside the trapezoid
      -- 3×3 sample points; faces of area > 16 get a 6×6 grid as well
      let big := ((xr - xl) > 3 && (y1 - y0) > 3)
      let rows : List Rat := if big then [ym, (3 * y0 + y1) / 4, (y0 + 3 * y1) / 4, (7 * y0 + y1) / 8, (y0 + 7 * y1) / 8, (5 * y0 + 3 * y1) / 8]
        else [ym, (3 * y0 + y1) / 4, (y0 + 3 * y1) / 4]
      let fr : List Rat := if big then [1/2, 1/4, 3/4, 1/8, 7/8, 3/8] else [1/2, 1/4, 3/4]
      let mut found := false
      for yy in rows do
        if found then break
        let xl' := xAt el yy
        let xr' := xAt er yy
        for f in fr do
          if found then break
          let p : QPt := ⟨xl' + (xr' - xl') * f, yy⟩
          if far band r2 p then
            -- confirm with the plain definitions only
            if !(onAny labs p) then
              let pv := plainVec labs p
              if bad pv then
                res := { res with witness := some (p, pv.toList) }
                found := true
      if found then return res
      res := { res with badInBand := res.badInBand + 1 }
  return res

end Check
